(* C04 — permutation bookkeeping.
   (1) permuteRows(a, x, b, p) computes the gather "row i := old row p[i]" for
       EVERY permutation p (and its chase loop never runs out of fuel);
   (2) what the containers' PermuteRows(pi) (interchange semantics) computes. *)
From Coq Require Import List Bool Arith ZArith Lia Permutation FinFun.
From ADV Require Import Base.Num C04.Model C04.ProofsList.
Import ListNotations.

(* ------------------------------------------------------------------ swaps are permutations *)
Lemma swap_l_Permutation {X} (d : X) (l : list X) i j :
  i < length l -> j < length l -> Permutation (swap_l d l i j) l.
Proof.
  intros Hi Hj. symmetry.
  apply (Permutation_nth l (swap_l d l i j) d). split; [apply swap_l_length|].
  exists (fun x => if Nat.eqb x j then i else if Nat.eqb x i then j else x).
  split; [|split].
  - intros x Hx. destruct (Nat.eqb_spec x j); [lia|]. destruct (Nat.eqb_spec x i); lia.
  - intros x y Hx Hy.
    destruct (Nat.eqb_spec x j), (Nat.eqb_spec x i), (Nat.eqb_spec y j), (Nat.eqb_spec y i); lia.
  - intros x Hx. rewrite nth_swap_l by auto.
    destruct (Nat.eqb x j); [reflexivity|]. destruct (Nat.eqb x i); reflexivity.
Qed.

Lemma perm_facts n (p : list nat) : Permutation p (seq 0 n) ->
  length p = n /\ NoDup p /\ (forall r, r < n -> pget p r < n) /\ (forall v, v < n -> In v p).
Proof.
  intros HP. assert (HL : length p = n) by (rewrite (Permutation_length HP), seq_length; auto).
  split; [auto|]. split.
  - apply (Permutation_NoDup (Permutation_sym HP)), seq_NoDup.
  - split.
    + intros r Hr. assert (In (pget p r) (seq 0 n)) as Hin.
      { apply (Permutation_in _ HP). unfold pget. apply nth_In. lia. }
      apply in_seq in Hin. lia.
    + intros v Hv. apply (Permutation_in _ (Permutation_sym HP)). apply in_seq. lia.
Qed.

Lemma NoDup_pget_inj (p : list nat) a b : NoDup p -> a < length p -> b < length p -> pget p a = pget p b -> a = b.
Proof. intros HN Ha Hb H. unfold pget in H. apply (proj1 (NoDup_nth p 0) HN a b Ha Hb H). Qed.

(* ------------------------------------------------------------------ the chase *)
Section Chase.
Variable p : list nat.

(* ChaseN i v j k: starting at v, following v := p[v] while v < i, the loop stops at j after k steps *)
Inductive ChaseN (i : nat) : nat -> nat -> nat -> Prop :=
| CN0 v : i <= v -> ChaseN i v v 0
| CNS v j k : v < i -> ChaseN i (pget p v) j k -> ChaseN i v j (S k).

Lemma chase_of_ChaseN i v j k fuel : ChaseN i v j k -> k <= fuel -> chase fuel p i v = Some j.
Proof.
  intros H. revert fuel. induction H as [v Hv|v j k Hv H IH]; intros fuel Hk.
  - destruct fuel; simpl; destruct (Nat.ltb_spec v i); auto; lia.
  - destruct fuel; [lia|]. simpl. destruct (Nat.ltb_spec v i); [|lia]. apply IH. lia.
Qed.

Lemma ChaseN_end i v j k : ChaseN i v j k -> i <= j.
Proof. induction 1; auto. Qed.

Lemma ChaseN_lift i v j k : ChaseN i v j k -> j <> i -> ChaseN (S i) v j k.
Proof.
  induction 1 as [v Hv|v j k Hv H IH]; intros Hj.
  - apply CN0. lia.
  - apply CNS; [lia|]. apply IH; auto.
Qed.

Lemma ChaseN_through i w j k1 k2 :
  ChaseN i w i k1 -> ChaseN i (pget p i) j k2 -> j <> i -> ChaseN (S i) w j (k1 + S k2).
Proof.
  intros H1 H2 Hj. remember i as e eqn:He in H1 at 2.
  induction H1 as [v Hv|v j' k Hv H IH].
  - subst v. simpl. apply CNS; [lia|]. apply ChaseN_lift; auto.
  - simpl. apply CNS; [lia|]. apply IH; auto.
Qed.
End Chase.

(* sums of a function over an index list, one entry replaced *)
Definition nsum (ks : nat -> nat) (L : list nat) : nat := fold_right (fun r acc => ks r + acc) 0 L.

Lemma nsum_upd ks L j0 c : NoDup L -> In j0 L ->
  nsum (fun r => if Nat.eqb r j0 then c else ks r) L + ks j0 = nsum ks L + c.
Proof.
  induction L as [|h t IH]; intros HN Hin; simpl; [destruct Hin|].
  inversion HN as [|? ? Hnot HN']; subst.
  destruct Hin as [->|Hin].
  - rewrite Nat.eqb_refl.
    assert (E : nsum (fun r => if Nat.eqb r j0 then c else ks r) t = nsum ks t).
    { clear IH HN HN'. induction t as [|h' t' IHt]; simpl; auto.
      destruct (Nat.eqb_spec h' j0) as [->|]; [exfalso; apply Hnot; left; auto|].
      rewrite IHt; auto. intros H; apply Hnot; right; auto. }
    rewrite E. lia.
  - destruct (Nat.eqb_spec h j0) as [->|]; [exfalso; auto|].
    specialize (IH HN' Hin). lia.
Qed.

Lemma nsum_le ks L r : In r L -> ks r <= nsum ks L.
Proof. induction L as [|h t IH]; simpl; intros H; [destruct H|]. destruct H as [->|H]; [lia|]. specialize (IH H). lia. Qed.

(* ------------------------------------------------------------------ (1) permuteRows = gather *)
Section PermuteRows.
Context {A : Type} (N : Num A).
Variable n : nat.
Variable p : list nat.
Hypothesis Hp : Permutation p (seq 0 n).
Variable s0 : st (A:=A).
Hypothesis Ha : length (sa s0) = n.
Hypothesis Hx : length (sx s0) = n.
Hypothesis Hb : length (sb s0) = n.

(* q : which original row currently sits at each position *)
Definition holds (q : list nat) (s : st (A:=A)) : Prop := s = gather_st N s0 q.

Definition inv (i : nat) (q : list nat) : Prop :=
  Permutation q (seq 0 n) /\
  (forall r, r < i -> pget q r = pget p r) /\
  exists ks : nat -> nat,
    (forall r, i <= r < n -> ChaseN p i (pget q r) r (ks r)) /\ nsum ks (seq i (n - i)) <= i.

Lemma gather_swap {X} (d : X) (l : list X) (q : list nat) i j :
  i < length q -> j < length q ->
  swap_l d (gather d l q) i j = gather d l (swap_l 0 q i j).
Proof.
  intros Hi Hj. unfold gather.
  apply (nth_ext_eq d).
  - rewrite swap_l_length, !map_length, swap_l_length. auto.
  - intros k Hk. rewrite swap_l_length, map_length in Hk.
    rewrite nth_swap_l by (rewrite map_length; auto).
    assert (E : forall (q' : list nat) r, r < length q' -> nth r (map (fun k0 => nth k0 l d) q') d = nth (nth r q' 0) l d).
    { intros q' r Hr. rewrite (nth_indep _ d (nth 0 l d)) by (rewrite map_length; auto).
      rewrite (map_nth (fun k0 => nth k0 l d) q' 0 r). reflexivity. }
    rewrite !E by (try rewrite swap_l_length; auto).
    rewrite (nth_swap_l 0 q i j k Hi Hj).
    destruct (Nat.eqb k j); [reflexivity|]. destruct (Nat.eqb k i); reflexivity.
Qed.

Lemma step_inv i q s : i < n -> inv i q -> holds q s ->
  exists q' s', permute_rows_step N p (Some s) i = Some s' /\ inv (S i) q' /\ holds q' s'.
Proof.
  intros Hi (HPq & Hplaced & ks & Hch & Hsum) Hh.
  destruct (perm_facts n p Hp) as (HLp & HNp & Hpr & _).
  destruct (perm_facts n q HPq) as (HLq & HNq & Hqr & Hqin).
  (* where the row wanted at position i currently sits *)
  assert (Hj0 : exists j0, j0 < n /\ pget q j0 = pget p i).
  { destruct (In_nth q (pget p i) 0 (Hqin _ (Hpr i Hi))) as (j0 & H1 & H2). exists j0. split; [lia|exact H2]. }
  destruct Hj0 as (j0 & Hj0n & Hj0).
  assert (Hj0i : i <= j0).
  { destruct (Nat.le_gt_cases i j0) as [|Hlt]; auto. exfalso.
    rewrite (Hplaced j0 Hlt) in Hj0. apply NoDup_pget_inj in Hj0; try lia; auto. }
  assert (Hc : ChaseN p i (pget p i) j0 (ks j0)) by (rewrite <- Hj0; apply Hch; lia).
  assert (Hk : ks j0 <= length p).
  { assert (ks j0 <= nsum ks (seq i (n - i))) by (apply nsum_le, in_seq; lia). lia. }
  unfold permute_rows_step. rewrite (chase_of_ChaseN p i (pget p i) j0 (ks j0) (length p) Hc Hk).
  destruct (Nat.eqb_spec j0 i) as [->|Hne].
  - (* already in place *)
    exists q, s. split; [reflexivity|]. split; [|exact Hh].
    split; [exact HPq|]. split.
    + intros r Hr. destruct (Nat.eq_dec r i) as [->|]; [exact Hj0|]. apply Hplaced. lia.
    + exists ks. split.
      * intros r Hr. apply ChaseN_lift; [apply Hch; lia| lia].
      * replace (n - i) with (S (n - S i)) in Hsum by lia. simpl in Hsum. lia.
  - exists (swap_l 0 q i j0), (swap_rows_st N s i j0).
    split; [reflexivity|]. split.
    + split; [|split].
      * eapply Permutation_trans; [apply swap_l_Permutation; lia| exact HPq].
      * intros r Hr. unfold pget. rewrite nth_swap_l by lia.
        destruct (Nat.eqb_spec r j0); [lia|].
        destruct (Nat.eqb_spec r i) as [->|]; [exact Hj0|]. apply Hplaced. lia.
      * exists (fun r => if Nat.eqb r j0 then ks i + S (ks j0) else ks r). split.
        -- intros r Hr. unfold pget at 1. rewrite nth_swap_l by lia.
           destruct (Nat.eqb_spec r j0) as [->|Hrj].
           ++ apply ChaseN_through; auto. apply Hch. lia.
           ++ destruct (Nat.eqb_spec r i); [lia|]. apply ChaseN_lift; [apply Hch; lia|lia].
        -- assert (HU := nsum_upd ks (seq (S i) (n - S i)) j0 (ks i + S (ks j0)) (seq_NoDup _ _) ltac:(apply in_seq; lia)).
           replace (n - i) with (S (n - S i)) in Hsum by lia. simpl in Hsum. lia.
    + unfold holds in *. subst s. unfold swap_rows_st, gather_st. simpl.
      rewrite !gather_swap by lia. reflexivity.
Qed.

Lemma run_inv : forall m i q s, m = n - i -> i <= n -> inv i q -> holds q s ->
  fold_left (permute_rows_step N p) (seq i m) (Some s) = Some (gather_st N s0 p).
Proof.
  induction m as [|m IH]; intros i q s Hm Hi Hinv Hh.
  - simpl. assert (i = n) by lia. subst i. f_equal. unfold holds in Hh. subst s.
    destruct Hinv as (HPq & Hplaced & _).
    destruct (perm_facts n p Hp) as (HLp & _). destruct (perm_facts n q HPq) as (HLq & _).
    replace q with p; auto. apply (nth_ext_eq 0); [lia|]. intros k Hk. symmetry. apply Hplaced. lia.
  - change (seq i (S m)) with (i :: seq (S i) m). cbn [fold_left].
    destruct (step_inv i q s ltac:(lia) Hinv Hh) as (q' & s' & Hstep & Hinv' & Hh').
    rewrite Hstep. apply (IH (S i) q' s'); auto; lia.
Qed.

Lemma gather_seq {X} (d : X) (l : list X) : gather d l (seq 0 (length l)) = l.
Proof.
  unfold gather. apply (nth_ext_eq d).
  - rewrite map_length, seq_length. auto.
  - intros k Hk. rewrite map_length, seq_length in Hk.
    rewrite (nth_indep _ d (nth 0 l d)) by (rewrite map_length, seq_length; auto).
    rewrite (map_nth (fun k0 => nth k0 l d) (seq 0 (length l)) 0 k). rewrite seq_nth; auto.
Qed.

Lemma permute_rows_gather_sec : permute_rows N s0 p = Some (gather_st N s0 p).
Proof.
  unfold permute_rows. destruct (perm_facts n p Hp) as (HLp & _). rewrite HLp.
  apply (run_inv n 0 (seq 0 n) s0); try lia.
  - split; [apply Permutation_refl|]. split; [intros; lia|].
    exists (fun _ => 0). split.
    + intros r Hr. unfold pget. rewrite seq_nth by lia. apply CN0. lia.
    + clear. induction (seq 0 (n - 0)); simpl; auto.
  - unfold holds, gather_st. destruct s0 as [a x b]. simpl in *.
    f_equal; symmetry.
    + rewrite <- Ha. apply gather_seq.
    + rewrite <- Hx. apply gather_seq.
    + rewrite <- Hb. apply gather_seq.
Qed.

End PermuteRows.

(* the statement for all carriers, sizes, states and permutations *)
Lemma permute_rows_gather (A : Type) (N : Num A) (n : nat) (p : list nat) (s : st (A:=A)) :
  Permutation p (seq 0 n) -> length (sa s) = n -> length (sx s) = n -> length (sb s) = n ->
  permute_rows N s p = Some (gather_st N s p).
Proof. intros. eapply permute_rows_gather_sec; eauto. Qed.

(* ------------------------------------------------------------------ (2) interchange semantics of PermuteRows(pi) *)
(* for every in-range pi the result is a rearrangement of the rows (a product of the
   transpositions (i pi[i]) with pi[i] > i, applied in order) *)
Lemma mat_permute_rows_rearranges (A : Type) (n : nat) (pi : list nat) (m : list (list A)) :
  length m = n -> (forall i, i < n -> pget pi i < n) ->
  exists m', mat_permute_rows n pi m = Ok m' /\ Permutation m' m.
Proof.
  intros HL Hr. unfold mat_permute_rows, interchange.
  assert (G : forall is t, (forall i, In i is -> i < n) -> length t = n -> Permutation t m ->
    exists m', fold_left (fun o i => match o with
       | Ok t => let q := pget pi i in
           if (if false then n <=? q else n <? q) then ErrPerm
           else if i <? q then (if q <? n then Ok (swap_l [] t i q) else PanicIndex) else Ok t
       | e => e end) is (Ok t) = Ok m' /\ Permutation m' m).
  { induction is as [|i r IH]; intros t His Ht HP; simpl.
    - exists t; auto.
    - assert (Hi : i < n) by (apply His; left; auto). specialize (Hr i Hi).
      destruct (Nat.ltb_spec n (pget pi i)); [lia|].
      destruct (Nat.ltb_spec i (pget pi i)).
      + destruct (Nat.ltb_spec (pget pi i) n); [|lia].
        apply IH; [intros; apply His; right; auto| rewrite swap_l_length; auto|].
        eapply Permutation_trans; [apply swap_l_Permutation; lia|exact HP].
      + apply IH; auto. intros; apply His; right; auto. }
  apply G; auto. intros i Hi. apply in_seq in Hi. lia.
Qed.

(* ... which is NOT the gather by pi in general: the 3-cycle [2;0;1] *)
Lemma mat_permute_rows_not_gather :
  mat_permute_rows 3 [2;0;1] [[0];[1];[2]] = Ok [[2];[1];[0]] /\
  gather [] [[0];[1];[2]] [2;0;1] = [[2];[0];[1]].
Proof. split; reflexivity. Qed.

(* the guard of the matrix methods lets pi[i] = n through and then indexes out of range *)
Lemma mat_permute_rows_guard_off_by_one :
  mat_permute_rows 3 [3;1;2] [[0];[1];[2]] = PanicIndex /\
  vec_permute (NumZ) 3 [3;1;2] [0;1;2]%Z = ErrPerm.
Proof. split; reflexivity. Qed.
