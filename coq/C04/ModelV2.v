(* C04 — round 6: matrixInverse.Run(matrix, [UpperTriangular{true}], [Submatrix{..}], &InSitu{Id, A, B}) whose
   caller-supplied buffers InSitu.A and InSitu.Id are VIEWS of larger workspaces (plain and upper-triangular modes):
     Run:       Id[i,j] = (i == j) for i, j < n           (At(i,j) on the view: written through)
     mInverse*: a.Set(matrix)  (a.At(i,j).Set(matrix.ConstAt(i,j)));  b[i] = 1;  gaussJordan.Run(a, x, b, ...)
   [m] is the matrix the argument denotes (the argument is only read; when it is itself a view, m = vload of it).
   The result matrix is the view InSitu.Id.  No proofs in this file. *)
From Coq Require Import List Bool Arith.
From ADV Require Import Base.Num C04.Model C04.Model2 C04.ModelV.
Import ListNotations.

Section InvView.
Context {A : Type} (N : Num A).

Definition m_inverse_v (dense ut : bool) (n : nat) (omsk : option (list bool)) (hA hId : hdr)
           (wA wId : list A) (bB : option (vec (A:=A))) (m : mat (A:=A)) : outcome (vst (A:=A)) :=
  let msk := match omsk with Some s => s | None => all_true n end in
  let wx1 := vstore N n wId hId (reset_ident N n (vload N n wId hId)) in
  let wa1 := vstore N n wA hA (mat_set N n (vload N n wA hA) m) in
  gj_run_v N dense ut n msk hA hId (mkV wa1 wx1 (reset_ones N n (buf_v N n bB))).

End InvView.
