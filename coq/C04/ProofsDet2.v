(* C04 — round 2: the Laplace determinant (= determinantNaive) is linear in the first row
   and normalised (det I = 1). *)
From Coq Require Import List Bool Arith Lia Field.
From ADV Require Import Base.Num C04.Model C04.Spec C04.ProofsList C04.ProofsDet C04.ProofsPerm C04.ProofsGJ.
Import ListNotations.

Section Det2.
Variable K : fld.
Add Field KF9 : (Fth K).
Notation N := (NumK K).
Notation "0" := (f0 K). Notation "1" := (f1 K).
Infix "+" := (fadd K). Infix "*" := (fmul K). Infix "-" := (fsub K).

Lemma minor0_cons (r : list K) rest j : minor0 (r :: rest) j = map (drop_col j) rest.
Proof. reflexivity. Qed.

Lemma mget_cons0 (r : list K) rest j : mget N (r :: rest) O j = vget N r j.
Proof. reflexivity. Qed.

(* det (r1 + c*r2 :: rest) = det (r1 :: rest) + c * det (r2 :: rest) *)
Lemma det_first_row_linear n (r1 r2 r3 : list K) (c : K) (rest : list (list K)) : 1 <= n ->
  (forall j, j < n -> vget N r3 j = vget N r1 j + c * vget N r2 j) ->
  det_laplace K n (r3 :: rest) = det_laplace K n (r1 :: rest) + c * det_laplace K n (r2 :: rest).
Proof.
  intros Hn H. destruct n as [|n]; [lia|]. rewrite !det_laplace_S.
  rewrite <- sumL_lin. apply sumL_ext. intros j Hj. apply in_seq in Hj.
  rewrite !mget_cons0. rewrite !minor0_cons. rewrite H by lia. unfold sgn. destruct (Nat.even j); ring.
Qed.

(* det I = 1 *)
Lemma mget_ident' n i j : i < n -> j < n -> mget N (ident N n) i j = delta K i j.
Proof.
  intros Hi Hj. unfold mget, row, vget, ident.
  assert (E : forall X (f : nat -> X) m k d, k < m -> nth k (map f (seq 0 m)) d = f k).
  { intros X f m k d H. rewrite (nth_indep _ d (f O)) by (rewrite map_length, seq_length; auto).
    rewrite (map_nth f (seq 0 m) O k). rewrite seq_nth; auto. }
  rewrite E by auto. rewrite E by auto. reflexivity.
Qed.

Lemma det_ident n : det_laplace K n (ident N n) = 1.
Proof.
  rewrite det_upper_tri.
  - assert (G : forall l, (forall i, In i l -> i < n) -> prodL K l (fun i => mget N (ident N n) i i) = 1).
    { induction l as [|h t IH]; intros Hl; simpl; [reflexivity|].
      rewrite IH by (intros; apply Hl; right; auto).
      rewrite mget_ident' by (apply Hl; left; auto). unfold delta. rewrite Nat.eqb_refl. ring. }
    apply G. intros i Hi. apply in_seq in Hi. lia.
  - intros i j Hji Hi. rewrite mget_ident' by lia. unfold delta.
    destruct (Nat.eqb_spec i j); [lia|reflexivity].
Qed.

End Det2.
