(* C04 — Gauss-Jordan, round 2: the BACK phase invariant (upper triangular with
   non-zero diagonal -> identity), for an arbitrary virtual permutation p and
   both x-normalisation bounds (0: gaussJordan, i: gaussJordanUpperTriangular). *)
From Coq Require Import List Bool Arith Lia Field Permutation.
From ADV Require Import Base.Num C04.Model C04.Spec C04.ProofsList C04.ProofsDet C04.ProofsPerm C04.ProofsGJ C04.ProofsGJ2.
Import ListNotations.

Section GJ3.
Variable K : fld.
Add Field KF5 : (Fth K).
Notation N := (NumK K).
Notation "0" := (f0 K). Notation "1" := (f1 K).
Infix "+" := (fadd K). Infix "*" := (fmul K). Infix "-" := (fsub K). Infix "/" := (fdiv K).

Variable n : nat.
Variable msk : list bool.
Notation S := (idxs msk 0 n).
Notation axpy := (is_axpy K n msk).
Notation scale := (is_scale K n msk).

(* ------------------------------------------------------------------ the a-loop with its re-read of a[p[j],i] *)
Lemma bs_arow_diag i c (ri : list K) : vget N ri i = c -> c <> 0 ->
  forall ks rj, NoDup ks -> (forall k, In k ks -> k <> i -> vget N ri k = 0) ->
    exists r', bs_arow N ks i c rj ri = Some r' /\ length r' = length rj /\
      (forall k, k <> i -> vget N r' k = vget N rj k) /\
      (In i ks -> i < length rj -> vget N r' i = 0) /\ (~ In i ks -> vget N r' i = vget N rj i).
Proof.
  intros Hri Hc. induction ks as [|k t IH]; intros rj HN Hz.
  - exists rj. split; [reflexivity|]. split; [auto|]. split; [auto|]. split; [intros []|auto].
  - inversion HN as [|? ? Hnot HN']; subst. rewrite bs_arow_cons.
    set (rj1 := upd rj k (vget N rj k - vget N rj i * vget N ri k / vget N ri i)).
    destruct (IH rj1 HN' (fun k' H => Hz k' (or_intror H))) as (r' & E & HL & Hoth & Hin & Hnin).
    exists r'. split; [exact E|]. split; [unfold rj1 in HL; rewrite length_upd in HL; exact HL|].
    destruct (Nat.eq_dec k i) as [->|Hki].
    + split; [|split].
      * intros k' Hk'. rewrite Hoth by auto. unfold rj1, vget. apply nth_upd_other. auto.
      * intros _ Hlen. rewrite Hnin by auto. unfold rj1. unfold vget at 1. rewrite nth_upd_same by auto.
        fold (vget N rj i). field. auto.
      * intros H. exfalso. apply H. left. reflexivity.
    + assert (Hsame : forall k', vget N rj1 k' = vget N rj k').
      { intros k'. unfold rj1. unfold vget at 1. rewrite nth_upd.
        destruct (Nat.eqb_spec k k') as [<-|]; simpl; [|reflexivity].
        destruct (Nat.ltb_spec k (length rj)); [|reflexivity].
        fold (vget N rj k). rewrite (Hz k (or_introl eq_refl) Hki). field. auto. }
      split; [|split].
      * intros k' Hk'. rewrite Hoth by auto. apply Hsame.
      * intros [H|H] Hlen; [congruence|]. apply Hin; auto. unfold rj1. rewrite length_upd. auto.
      * intros H. rewrite Hnin by (intros H'; apply H; right; auto). apply Hsame.
Qed.

(* ------------------------------------------------------------------ one row of the back phase is a row operation *)
Lemma bs_row_axpy p s i j :
  wf_st K n s -> pget p j < n -> pget p i < n -> pget p i <> pget p j -> In i S ->
  mget N (sa s) (pget p i) i <> 0 ->
  (forall k, In k S -> k <> i -> mget N (sa s) (pget p i) k = 0) ->
  exists s', bs_row N n i msk p (mget N (sa s) (pget p i) i) (Some s) j = Some s' /\
             axpy s s' (pget p j) (pget p i) (mget N (sa s) (pget p j) i / mget N (sa s) (pget p i) i).
Proof.
  intros (Ha & Hx & Hb) Hpj Hpi Hne Hi Hc Hz.
  destruct (proj1 (inS n msk _) Hi) as [Hin His].
  assert (HLa : length (sa s) = n) by apply Ha. assert (HLx : length (sx s) = n) by apply Hx.
  unfold wf_vec in Hb.
  assert (Hra : length (row (sa s) (pget p j)) = n) by (apply (wf_row_len K n); auto).
  assert (Hrx : length (row (sx s) (pget p j)) = n) by (apply (wf_row_len K n); auto).
  set (c := mget N (sa s) (pget p i) i) in *.
  unfold bs_row. cbn [is_nan NumK]. rewrite bs_xrow_pmap.
  assert (HND : NoDup (rev (idxs msk 0 n))) by (apply NoDup_rev, NoDup_idxs).
  destruct (bs_arow_diag i c (row (sa s) (pget p i)) eq_refl Hc (rev (idxs msk 0 n)) (row (sa s) (pget p j)) HND)
    as (ar & Ear & HLar & Hoth & Hini & _).
  { intros k Hk Hki. apply in_rev in Hk. apply (Hz k Hk Hki). }
  rewrite Ear. eexists. split; [reflexivity|].
  split; [|split; [|split; [|split]]]; cbn [sa sx sb].
  - split; [|split]; cbn [sa sx sb].
    + apply (wf_upd_row K n); auto. lia.
    + apply (wf_upd_row K n); auto. rewrite pmap_length; auto.
    + unfold wf_vec. rewrite length_upd; auto.
  - intros r Hr. cbn [sa sx sb]. rewrite !row_upd by lia.
    destruct (Nat.eqb_spec (pget p j) r); [congruence|]. split; [auto|split; [auto|]].
    unfold vget. apply nth_upd_other. auto.
  - intros k Hk. unfold mget at 1. rewrite row_upd by lia. rewrite Nat.eqb_refl.
    destruct (Nat.eq_dec k i) as [->|Hki].
    + rewrite His. rewrite Hini; [|apply -> in_rev; exact Hi|lia].
      fold c. unfold mget. field. auto.
    + rewrite Hoth by auto. fold (mget N (sa s) (pget p j) k).
      destruct (sel msk k) eqn:Hs; [|reflexivity].
      rewrite (Hz k) by (try apply inS; auto). ring.
  - intros k Hk. unfold mget at 1. rewrite row_upd by lia. rewrite Nat.eqb_refl.
    destruct (sel msk k) eqn:Hs.
    + rewrite pmap_in; [|exact HND|apply -> in_rev; apply inS; auto|lia].
      unfold mget. field. auto.
    + rewrite pmap_notin; [reflexivity|]. intros H. apply in_rev in H. apply inS in H. destruct H; congruence.
  - unfold vget at 1. rewrite nth_upd_same by lia. fold (vget N (sb s) (pget p j)).
    fold (vget N (sb s) (pget p i)). cbn [sub div mul NumK]. field. auto.
Qed.

(* ------------------------------------------------------------------ shape of x kept by the triangular variant *)
Variable p : list nat.
Hypothesis Hp : pfix n msk p.
Variable xlo : nat -> nat.
Hypothesis Hmono : forall j i, In j S -> In i S -> j < i -> xlo j <= xlo i.
Variable s0 : st (A:=K).
Notation Rel := (Rel K n msk s0).

Definition XZ (s : st (A:=K)) : Prop :=
  forall r k, In r S -> In k S -> k < xlo r -> mget N (sx s) (pget p r) k = 0.

Lemma pS r : In r S -> In (pget p r) S. Proof. apply pfix_S; auto. Qed.
Lemma pn r : In r S -> pget p r < n. Proof. intros H. apply pS in H. apply inS in H. tauto. Qed.
Lemma pinj a b : In a S -> In b S -> pget p a = pget p b -> a = b.
Proof. intros Ha Hb. apply inS in Ha, Hb. apply (pfix_inj n msk p); tauto. Qed.

Lemma axpy_XZ s s' j i m : axpy s s' (pget p j) (pget p i) m -> In j S -> In i S -> xlo j <= xlo i -> XZ s -> XZ s'.
Proof.
  intros (_ & Hoff & _ & Hx & _) Hj Hi Hle HX r k Hr Hk Hlt.
  destruct (proj1 (inS n msk _) Hk) as [Hkn Hks].
  destruct (Nat.eq_dec (pget p r) (pget p j)) as [E|E].
  - apply pinj in E; auto. subst r. rewrite Hx by auto. rewrite Hks.
    rewrite (HX j k), (HX i k) by (auto; lia). ring.
  - destruct (Hoff _ E) as (_ & H2 & _). rewrite (mget_row_eq K _ _ _ _ H2). apply HX; auto.
Qed.

Lemma scale_XZ s s' i c : scale s s' (pget p i) c -> c <> 0 -> XZ s -> XZ s'.
Proof.
  intros (_ & Hoff & _ & Hx & _) Hc HX r k Hr Hk Hlt.
  destruct (proj1 (inS n msk _) Hk) as [Hkn Hks].
  destruct (Nat.eq_dec (pget p r) (pget p i)) as [E|E].
  - rewrite E. rewrite Hx by auto. rewrite Hks. rewrite <- E. rewrite (HX r k) by auto. field. auto.
  - destruct (Hoff _ E) as (_ & H2 & _). rewrite (mget_row_eq K _ _ _ _ H2). apply HX; auto.
Qed.

(* ------------------------------------------------------------------ the loop "for j := 0; j < i; j++" of one column *)
Lemma bs_fold i : In i S ->
  forall js s, NoDup js -> (forall j, In j js -> In j S /\ j < i) -> Rel s -> XZ s ->
    mget N (sa s) (pget p i) i <> 0 ->
    (forall k, In k S -> k <> i -> mget N (sa s) (pget p i) k = 0) ->
    exists s', fold_left (bs_row N n i msk p (mget N (sa s) (pget p i) i)) js (Some s) = Some s' /\
    Rel s' /\ XZ s' /\
    (forall r, (forall j, In j js -> r <> pget p j) ->
        row (sa s') r = row (sa s) r /\ row (sx s') r = row (sx s) r /\ vget N (sb s') r = vget N (sb s) r) /\
    (forall j, In j js -> mget N (sa s') (pget p j) i = 0) /\
    (forall r k, r < n -> k < n -> k <> i -> mget N (sa s') r k = mget N (sa s) r k).
Proof.
  intros Hi. destruct (proj1 (inS n msk _) Hi) as [Hin His].
  induction js as [|j t IH]; intros s HN Hjs HR HX Hpiv Hz; cbn [fold_left].
  - exists s. split; [reflexivity|]. split; [exact HR|]. split; [exact HX|].
    split; [auto|]. split; [intros j []|auto].
  - inversion HN as [|? ? Hnot HN']; subst.
    destruct (Hjs j (or_introl eq_refl)) as [HjS Hji].
    assert (Hne : pget p i <> pget p j) by (intros E; apply pinj in E; auto; lia).
    assert (Hwf : wf_st K n s) by apply HR.
    destruct (bs_row_axpy p s i j Hwf (pn j HjS) (pn i Hi) Hne Hi Hpiv Hz) as (s1 & E1 & Hax).
    rewrite E1.
    assert (HR1 : Rel s1) by (eapply axpy_Rel; eauto using pS).
    assert (HX1 : XZ s1) by (eapply axpy_XZ; eauto).
    destruct Hax as (_ & Hsame & Ha & _).
    destruct (Hsame (pget p i) Hne) as (Hri & _).
    assert (Epiv : mget N (sa s1) (pget p i) i = mget N (sa s) (pget p i) i) by (apply mget_row_eq; auto).
    assert (Hpiv1 : mget N (sa s1) (pget p i) i <> 0) by (rewrite Epiv; exact Hpiv).
    assert (Hz1 : forall k, In k S -> k <> i -> mget N (sa s1) (pget p i) k = 0).
    { intros k Hk Hki. rewrite (mget_row_eq K _ _ _ _ Hri). auto. }
    destruct (IH s1 HN' (fun j' H => Hjs j' (or_intror H)) HR1 HX1 Hpiv1 Hz1)
      as (s' & E' & HR' & HX' & Hrows & Hzero & Hleft).
    rewrite Epiv in E'. exists s'. split; [exact E'|]. split; [exact HR'|]. split; [exact HX'|].
    split; [|split].
    + intros r Hr. destruct (Hrows r (fun j' H => Hr j' (or_intror H))) as (F1 & F2 & F3).
      destruct (Hsame r (Hr j (or_introl eq_refl))) as (G1 & G2 & G3).
      rewrite F1, F2, F3. auto.
    + intros j' [<-|Hj'].
      * assert (Hnt : forall j'', In j'' t -> pget p j <> pget p j'').
        { intros j'' Hj'' E. destruct (Hjs j'' (or_intror Hj'')) as [Hj''S _].
          apply pinj in E; auto. subst j''. auto. }
        destruct (Hrows (pget p j) Hnt) as (F1 & _). rewrite (mget_row_eq K _ _ _ _ F1).
        rewrite Ha by auto. rewrite His.
        set (c := mget N (sa s) (pget p i) i) in *. field. auto.
      * apply Hzero; auto.
    + intros r k Hr Hk Hki. rewrite Hleft by auto.
      destruct (Nat.eq_dec r (pget p j)) as [->|Hrne].
      * rewrite Ha by auto. destruct (sel msk k) eqn:Hs; [|reflexivity].
        rewrite (Hz k) by (try apply inS; auto). ring.
      * destruct (Hsame r Hrne) as (G1 & _). apply mget_row_eq; auto.
Qed.

(* ------------------------------------------------------------------ the column loop of the back phase *)
(* columns < m of the selection: upper triangular with non-zero diagonal (virtual row order);
   columns >= m: already the columns of the identity *)
Definition BInv (m : nat) (s : st (A:=K)) : Prop :=
  Rel s /\ XZ s /\
  (forall r c, In r S -> In c S -> c < m -> c < r -> mget N (sa s) (pget p r) c = 0) /\
  (forall c, In c S -> c < m -> mget N (sa s) (pget p c) c <> 0) /\
  (forall r c, In r S -> In c S -> m <= c -> mget N (sa s) (pget p r) c = delta K r c).

Lemma BInv_skip m s : sel msk m = false -> BInv (Datatypes.S m) s -> BInv m s.
Proof.
  intros Hs (HR & HX & Ht & Hd & Hdone). split; [exact HR|]. split; [exact HX|]. split; [|split].
  - intros; apply Ht; auto.
  - intros; apply Hd; auto.
  - intros r c Hr Hc Hmc. apply Hdone; auto.
    destruct (proj1 (inS n msk _) Hc) as [_ Hcs]. assert (c <> m) by congruence. lia.
Qed.

Lemma bs_step_BInv i s : In i S -> BInv (Datatypes.S i) s ->
  exists s', bs_step N n msk p xlo (Some s) i = Some s' /\ BInv i s'.
Proof.
  intros Hi (HR & HX & Ht & Hd & Hdone).
  destruct (proj1 (inS n msk _) Hi) as [Hin His].
  assert (Hpiv : mget N (sa s) (pget p i) i <> 0) by (apply Hd; auto).
  assert (Hz : forall k, In k S -> k <> i -> mget N (sa s) (pget p i) k = 0).
  { intros k Hk Hki. destruct (Nat.lt_ge_cases k i) as [Hlt|Hge].
    - apply Ht; auto.
    - rewrite Hdone by (auto; lia). unfold delta. destruct (Nat.eqb_spec i k); [congruence|reflexivity]. }
  assert (Hjs : forall j, In j (idxs msk 0 i) -> In j S /\ j < i).
  { intros j Hj. apply in_idxs in Hj. split; [apply inS; split; [lia|tauto]|lia]. }
  destruct (bs_fold i Hi (idxs msk 0 i) s (NoDup_idxs _ _ _) Hjs HR HX Hpiv Hz)
    as (s1 & E1 & HR1 & HX1 & Hrows & Hzero & Hleft).
  unfold bs_step. rewrite E1. cbn [is_nan NumK].
  set (c := mget N (sa s) (pget p i) i) in *.
  set (s' := mkSt (mset (sa s1) (pget p i) i (div N (mget N (sa s1) (pget p i) i) c))
                  (upd (sx s1) (pget p i) (scale_cols N (idxs msk (xlo i) n) (row (sx s1) (pget p i)) c))
                  (upd (sb s1) (pget p i) (div N (vget N (sb s1) (pget p i)) c))).
  exists s'. split; [reflexivity|].
  (* row p[i] was not written by the j loop *)
  assert (Hnt : forall j, In j (idxs msk 0 i) -> pget p i <> pget p j).
  { intros j Hj E. destruct (Hjs j Hj) as [HjS Hlt]. apply pinj in E; auto. lia. }
  destruct (Hrows (pget p i) Hnt) as (Ria & _).
  assert (Hz1 : forall k, In k S -> k <> i -> mget N (sa s1) (pget p i) k = 0).
  { intros k Hk Hki. rewrite (mget_row_eq K _ _ _ _ Ria). auto. }
  assert (Hc1 : mget N (sa s1) (pget p i) i = c) by (apply mget_row_eq; auto).
  assert (Hpin := pn i Hi).
  destruct HR1 as (Hwf1 & HR1').
  assert (Hsc : scale s1 s' (pget p i) c).
  { destruct Hwf1 as (Ha & Hx & Hb).
    assert (HLa : length (sa s1) = n) by apply Ha. assert (HLx : length (sx s1) = n) by apply Hx.
    unfold wf_vec in Hb.
    assert (Hra : length (row (sa s1) (pget p i)) = n) by (apply (wf_row_len K n); auto).
    assert (Hrx : length (row (sx s1) (pget p i)) = n) by (apply (wf_row_len K n); auto).
    split; [|split; [|split; [|split]]]; unfold s'; cbn [sa sx sb].
    - split; [|split]; cbn [sa sx sb].
      + unfold mset. apply (wf_upd_row K n); auto. rewrite length_upd. auto.
      + apply (wf_upd_row K n); auto. rewrite scale_pmap, pmap_length. auto.
      + unfold wf_vec. rewrite length_upd. auto.
    - intros r Hr. cbn [sa sx sb]. unfold mset. rewrite !row_upd by lia.
      destruct (Nat.eqb_spec (pget p i) r); [congruence|]. split; [auto|split; [auto|]].
      unfold vget. apply nth_upd_other. auto.
    - intros k Hk. unfold mget at 1, mset. rewrite row_upd by lia. rewrite Nat.eqb_refl.
      destruct (Nat.eq_dec k i) as [->|Hki].
      + unfold vget at 1. rewrite nth_upd_same by lia. rewrite His. reflexivity.
      + unfold vget at 1. rewrite nth_upd_other by auto. fold (vget N (row (sa s1) (pget p i)) k).
        fold (mget N (sa s1) (pget p i) k).
        destruct (sel msk k) eqn:Hs; [|reflexivity].
        rewrite (Hz1 k) by (try apply inS; auto). field. auto.
    - intros k Hk. unfold mget at 1. rewrite row_upd by lia. rewrite Nat.eqb_refl. rewrite scale_pmap.
      destruct (sel msk k) eqn:Hs.
      + destruct (Nat.lt_ge_cases k (xlo i)) as [Hlt|Hge].
        * rewrite pmap_notin by (rewrite in_idxs; lia).
          fold (mget N (sx s1) (pget p i) k). rewrite (HX1 i k) by (try apply inS; auto). field. auto.
        * rewrite pmap_in; [reflexivity|apply NoDup_idxs|apply in_idxs; split; [lia|auto]|lia].
      + rewrite pmap_notin; [reflexivity|]. rewrite in_idxs. intros [_ H]. congruence.
    - unfold vget at 1. rewrite nth_upd_same by lia. reflexivity. }
  assert (HR' : Rel s') by (apply (scale_Rel K n msk s0 s1 s' (pget p i) c); auto using pS; split; auto).
  assert (HX' : XZ s') by (eapply scale_XZ; eauto).
  (* entries of a after the step *)
  assert (Hget : forall r k, In r S -> In k S -> mget N (sa s') (pget p r) k =
             if Nat.eqb r i then mget N (sa s1) (pget p i) k / c else mget N (sa s1) (pget p r) k).
  { intros r k Hr Hk. destruct (proj1 (inS n msk _) Hk) as [Hkn Hks].
    destruct Hsc as (_ & Hoff & Ha & _).
    destruct (Nat.eqb_spec r i) as [->|Hri].
    - rewrite Ha by auto. rewrite Hks. reflexivity.
    - assert (E : pget p r <> pget p i) by (intros E; apply pinj in E; auto).
      destruct (Hoff _ E) as (G & _). apply mget_row_eq; auto. }
  split; [exact HR'|]. split; [exact HX'|]. split; [|split].
  - intros r k Hr Hk Hki Hkr. destruct (proj1 (inS n msk _) Hk) as [Hkn _].
    rewrite Hget by auto. destruct (Nat.eqb_spec r i) as [->|Hri].
    + rewrite Hz1 by (auto; lia). field. auto.
    + rewrite Hleft by (auto using pn; lia). apply Ht; auto.
  - intros k Hk Hki. destruct (proj1 (inS n msk _) Hk) as [Hkn _].
    rewrite Hget by auto. destruct (Nat.eqb_spec k i); [lia|].
    rewrite Hleft by (auto using pn; lia). apply Hd; auto.
  - intros r k Hr Hk Hik. destruct (proj1 (inS n msk _) Hk) as [Hkn _].
    destruct (proj1 (inS n msk _) Hr) as [Hrn Hrs].
    rewrite Hget by auto. unfold delta.
    destruct (Nat.eqb_spec r i) as [->|Hri].
    + destruct (Nat.eqb_spec i k) as [<-|Hne].
      * rewrite Hc1. field. auto.
      * rewrite Hz1 by auto. field. auto.
    + destruct (Nat.eq_dec k i) as [->|Hki].
      * destruct (Nat.eqb_spec r i); [congruence|].
        destruct (Nat.lt_ge_cases r i) as [Hlt|Hge].
        -- apply Hzero. apply in_idxs. split; [lia|auto].
        -- assert (Hnr : forall j, In j (idxs msk 0 i) -> pget p r <> pget p j).
           { intros j Hj E. destruct (Hjs j Hj) as [HjS Hlt]. apply pinj in E; auto. lia. }
           destruct (Hrows (pget p r) Hnr) as (G & _). rewrite (mget_row_eq K _ _ _ _ G).
           apply Ht; auto. lia.
      * rewrite Hleft by (auto using pn). rewrite Hdone by (auto; lia). reflexivity.
Qed.

Lemma back_fold : forall m s, m <= n -> BInv m s ->
  exists s', fold_left (bs_step N n msk p xlo) (rev (idxs msk 0 m)) (Some s) = Some s' /\ BInv O s'.
Proof.
  induction m as [|m IH]; intros s Hm HB.
  - exists s. rewrite idxs_nil by lia. split; [reflexivity|exact HB].
  - rewrite (idxs_split msk 0 m (Datatypes.S m)) by lia.
    rewrite (idxs_cons msk m (Datatypes.S m)) by lia. rewrite (idxs_nil msk (Datatypes.S m)) by lia.
    destruct (sel msk m) eqn:Hs.
    + rewrite rev_app_distr. cbn [rev app fold_left].
      assert (HmS : In m S) by (apply inS; split; [lia|auto]).
      destruct (bs_step_BInv m s HmS HB) as (s1 & E1 & HB1). rewrite E1.
      apply IH; [lia|exact HB1].
    + rewrite app_nil_r. apply IH; [lia|]. apply BInv_skip; auto.
Qed.

Lemma back_correct s : BInv n s ->
  exists s', back N n msk p xlo s = Some s' /\ BInv O s'.
Proof. intros HB. unfold back. apply back_fold; auto. Qed.

End GJ3.
