(* C04 — the model on the NaN-aware carrier [option K] (Spec.NumO), part 1:
   the embedding Some : K -> option K commutes with every operation of the run as long as
   no division has a zero divisor; hence with non-zero pivots the run on the NaN-aware
   carrier takes NO singular exit and returns the (finite) embedding of the field result. *)
From Coq Require Import List Bool Arith Lia Field Permutation.
From ADV Require Import Base.Num C04.Model C04.Spec C04.ProofsList C04.ProofsDet C04.ProofsPerm C04.ProofsGJ
                        C04.ProofsGJ2 C04.ProofsGJ3 C04.ProofsGJ4.
Import ListNotations.

Section NaN.
Variable K : fld.
Variable isz : K -> bool.
Hypothesis isz_spec : forall x, isz x = true <-> x = f0 K.
Notation N := (NumK K).
Notation O := (NumO K isz).
Notation lF := (fun f : fst_ (A:=K) => mkF (fp f) (lst K (fs f)) (lv K (fpiv f))).

Lemma isz_false x : x <> f0 K -> isz x = false.
Proof. intros H. destruct (isz x) eqn:E; auto. apply isz_spec in E. contradiction. Qed.

(* ------------------------------------------------------------------ entries *)
Lemma vget_lv r k : vget O (lv K r) k = Some (vget N r k).
Proof. unfold vget, lv. cbn [zero NumO NumK]. apply (map_nth (@Some K)). Qed.

Lemma row_lm m i : row (lm K m) i = lv K (row m i).
Proof. unfold row, lm. apply (map_nth (lv K) m [] i). Qed.

Lemma mget_lm m i j : mget O (lm K m) i j = Some (mget N m i j).
Proof. unfold mget. rewrite row_lm. apply vget_lv. Qed.

Lemma upd_map {X Y} (f : X -> Y) l i x : upd (map f l) i (f x) = map f (upd l i x).
Proof. revert i; induction l as [|h t IH]; intros [|i]; simpl; auto. rewrite IH. reflexivity. Qed.

Lemma upd_lv r k x : upd (lv K r) k (Some x) = lv K (upd r k x).
Proof. apply (upd_map (@Some K)). Qed.

Lemma upd_lm m i r : upd (lm K m) i (lv K r) = lm K (upd m i r).
Proof. apply (upd_map (lv K)). Qed.

Lemma div_some x c : c <> f0 K -> div O (Some x) (Some c) = Some (fdiv K x c).
Proof. intros H. cbn [div NumO odiv]. rewrite isz_false by auto. reflexivity. Qed.

(* ------------------------------------------------------------------ forward phase *)
Lemma find_max_lift a p msk n i : find_max O (lm K a) p msk n i = find_max N a p msk n i.
Proof.
  assert (G : forall js acc,
    fold_left (fun mr j => if ltb O (nabs O (mget O (lm K a) (pget p mr) i)) (nabs O (mget O (lm K a) (pget p j) i)) then j else mr) js acc =
    fold_left (fun mr j => if ltb N (nabs N (mget N a (pget p mr) i)) (nabs N (mget N a (pget p j) i)) then j else mr) js acc).
  { induction js as [|j t IH]; intros acc; cbn [fold_left]; auto.
    rewrite !mget_lm. cbn [ltb nabs NumO NumK ocmp option_map]. apply IH. }
  unfold find_max. apply G.
Qed.

Lemma axpy_lift ks : forall rj ri c, axpy_cols O ks (lv K rj) (lv K ri) (Some c) = lv K (axpy_cols N ks rj ri c).
Proof.
  unfold axpy_cols. induction ks as [|k t IH]; intros rj ri c; cbn [fold_left]; auto.
  rewrite !vget_lv. cbn [sub mul NumO NumK olift2]. rewrite upd_lv. apply IH.
Qed.

Lemma elim_row_lift n i msk p s j : mget N (sa s) (pget p i) i <> f0 K ->
  elim_row O n i msk p (lst K s) j = lst K (elim_row N n i msk p s j).
Proof.
  intros Hpiv. unfold elim_row, lst. cbn [sa sx sb].
  rewrite !mget_lm, !row_lm, !vget_lv. rewrite div_some by auto.
  rewrite !axpy_lift. rewrite !upd_lm. cbn [sub mul div NumO NumK olift2]. rewrite upd_lv. reflexivity.
Qed.

Lemma elim_row_keeps_pivot_row n i msk p (s : st (A:=K)) j k : pget p j <> pget p i ->
  mget N (sa (elim_row N n i msk p s j)) (pget p i) k = mget N (sa s) (pget p i) k.
Proof.
  intros Hne. unfold elim_row. cbn [sa]. unfold mget, row. rewrite nth_upd_other by auto. reflexivity.
Qed.

Lemma elim_fold_lift n i msk p js : forall s,
  (forall j, In j js -> pget p j <> pget p i) -> (js = [] \/ mget N (sa s) (pget p i) i <> f0 K) ->
  fold_left (elim_row O n i msk p) js (lst K s) = lst K (fold_left (elim_row N n i msk p) js s).
Proof.
  induction js as [|j t IH]; intros s Hne Hpiv; cbn [fold_left]; auto.
  destruct Hpiv as [Hnil|Hpiv]; [discriminate|].
  rewrite elim_row_lift by auto. apply IH.
  - intros j' Hj'. apply Hne. right. exact Hj'.
  - right. rewrite elim_row_keeps_pivot_row by (apply Hne; left; auto). exact Hpiv.
Qed.

Lemma fwd_step_lift n msk f i :
  let p' := swap_l 0 (fp f) i (find_max N (sa (fs f)) (fp f) msk n i) in
  (forall j, In j (idxs msk (S i) n) -> pget p' j <> pget p' i) ->
  (idxs msk (S i) n = [] \/ mget N (sa (fs f)) (pget p' i) i <> f0 K) ->
  fwd_step O n msk (lF f) i = lF (fwd_step N n msk f i).
Proof.
  intros p' Hne Hpiv. unfold fwd_step. cbn [fp fs fpiv sa lst].
  rewrite find_max_lift. fold p'. rewrite mget_lm.
  change (lm K (sa (fs f))) with (sa (lst K (fs f))).
  change (mkSt (sa (lst K (fs f))) (lm K (sx (fs f))) (lv K (sb (fs f)))) with (lst K (fs f)).
  rewrite elim_fold_lift by auto. reflexivity.
Qed.

(* ------------------------------------------------------------------ back phase *)
Lemma bs_xrow_lift ks aji c ri : c <> f0 K -> forall rj,
  bs_xrow O ks (Some aji) (Some c) (lv K rj) (lv K ri) = option_map (lv K) (bs_xrow N ks aji c rj ri).
Proof.
  intros Hc. unfold bs_xrow. induction ks as [|k t IH]; intros rj; cbn [fold_left]; auto.
  rewrite !vget_lv. cbn [mul NumO olift2]. rewrite div_some by auto.
  cbn [sub is_nan NumO NumK olift2]. rewrite upd_lv. apply IH.
Qed.

Lemma bs_arow_lift ks i c ri : c <> f0 K -> forall rj,
  bs_arow O ks i (Some c) (lv K rj) (lv K ri) = option_map (lv K) (bs_arow N ks i c rj ri).
Proof.
  intros Hc. unfold bs_arow. induction ks as [|k t IH]; intros rj; cbn [fold_left]; auto.
  rewrite !vget_lv. cbn [mul NumO olift2]. rewrite div_some by auto.
  cbn [sub is_nan NumO NumK olift2]. rewrite upd_lv. apply IH.
Qed.

Lemma bs_row_lift n i msk p c j : c <> f0 K -> forall o,
  bs_row O n i msk p (Some c) (option_map (lst K) o) j = option_map (lst K) (bs_row N n i msk p c o j).
Proof.
  intros Hc [s|]; [|reflexivity]. unfold bs_row. cbn [option_map lst sa sx sb].
  rewrite !mget_lm, !vget_lv, !row_lm. cbn [mul NumO olift2]. rewrite div_some by auto.
  cbn [sub is_nan NumO NumK olift2].
  rewrite bs_xrow_lift by auto. destruct (bs_xrow N (rev (idxs msk 0 n)) _ c _ _) as [xr|]; [|reflexivity].
  cbn [option_map]. rewrite bs_arow_lift by auto.
  destruct (bs_arow N (rev (idxs msk 0 n)) i c _ _) as [ar|]; [|reflexivity].
  cbn [option_map lst sa sx sb]. rewrite !upd_lm, upd_lv. reflexivity.
Qed.

Lemma bs_fold_lift n i msk p c js : c <> f0 K -> forall o,
  fold_left (bs_row O n i msk p (Some c)) js (option_map (lst K) o) =
  option_map (lst K) (fold_left (bs_row N n i msk p c) js o).
Proof.
  intros Hc. induction js as [|j t IH]; intros o; cbn [fold_left]; auto.
  rewrite bs_row_lift by auto. apply IH.
Qed.

Lemma scale_lift ks c : c <> f0 K -> forall r, scale_cols O ks (lv K r) (Some c) = lv K (scale_cols N ks r c).
Proof.
  intros Hc. unfold scale_cols. induction ks as [|k t IH]; intros r; cbn [fold_left]; auto.
  rewrite vget_lv. rewrite div_some by auto. rewrite upd_lv. apply IH.
Qed.

Lemma bs_step_lift n msk p xlo s i : mget N (sa s) (pget p i) i <> f0 K ->
  bs_step O n msk p xlo (Some (lst K s)) i = option_map (lst K) (bs_step N n msk p xlo (Some s) i).
Proof.
  intros Hc. unfold bs_step. cbn [lst sa].
  rewrite mget_lm. change (Some (lst K s)) with (option_map (lst K) (Some s)).
  rewrite bs_fold_lift by auto.
  destruct (fold_left (bs_row N n i msk p (mget N (sa s) (pget p i) i)) (idxs msk 0 i) (Some s)) as [s1|]; [|reflexivity].
  cbn [option_map lst sa sx sb]. rewrite mget_lm. rewrite div_some by auto.
  cbn [is_nan NumO NumK]. rewrite vget_lv. rewrite div_some by auto. rewrite !row_lm.
  rewrite scale_lift by auto. unfold mset. rewrite row_lm, upd_lv, !upd_lm, upd_lv. reflexivity.
Qed.

Lemma back_lift_fold n msk p (Hp : pfix n msk p) xlo
  (Hmono : forall j i, In j (idxs msk 0 n) -> In i (idxs msk 0 n) -> j < i -> xlo j <= xlo i) s0 :
  forall m s, m <= n -> BInv K n msk p xlo s0 m s ->
  fold_left (bs_step O n msk p xlo) (rev (idxs msk 0 m)) (Some (lst K s)) =
  option_map (lst K) (fold_left (bs_step N n msk p xlo) (rev (idxs msk 0 m)) (Some s)).
Proof.
  induction m as [|m IH]; intros s Hm HB.
  - rewrite idxs_nil by lia. reflexivity.
  - rewrite (idxs_split msk 0 m (Datatypes.S m)) by lia.
    rewrite (idxs_cons msk m (Datatypes.S m)) by lia. rewrite (idxs_nil msk (Datatypes.S m)) by lia.
    destruct (sel msk m) eqn:Hs.
    + rewrite rev_app_distr. cbn [rev app fold_left].
      assert (HmS : In m (idxs msk 0 n)) by (apply inS; split; [lia|auto]).
      assert (Hc : mget N (sa s) (pget p m) m <> f0 K).
      { destruct HB as (_ & _ & _ & Hd & _). apply Hd; auto. }
      destruct (bs_step_BInv K n msk p Hp xlo Hmono s0 m s HmS HB) as (s1 & E1 & HB1).
      rewrite bs_step_lift by auto. rewrite E1. cbn [option_map]. apply IH; [lia|exact HB1].
    + rewrite app_nil_r. apply IH; [lia|]. apply (BInv_skip K n msk p xlo s0); auto.
Qed.

(* ------------------------------------------------------------------ the final gather *)
Lemma gather_map {X Y} (f : X -> Y) d l p : gather (f d) (map f l) p = map f (gather d l p).
Proof.
  unfold gather. rewrite map_map. apply map_ext. intros k. apply map_nth.
Qed.

Lemma gather_st_lift s p : gather_st O (lst K s) p = lst K (gather_st N s p).
Proof.
  unfold gather_st, lst. cbn [sa sx sb zero NumO NumK].
  change (@nil (option K)) with (lv K []).
  unfold lm. rewrite !(gather_map (lv K)). unfold lv at 3. rewrite (gather_map (@Some K)). reflexivity.
Qed.

Lemma lst_lengths n s : wf_st K n s ->
  length (sa (lst K s)) = n /\ length (sx (lst K s)) = n /\ length (sb (lst K s)) = n.
Proof.
  intros ((Ha & _) & (Hx & _) & Hb). unfold lst, lm, lv. cbn [sa sx sb]. rewrite !map_length. auto.
Qed.

(* ------------------------------------------------------------------ the whole run *)
Variable n : nat.
Variable msk : list bool.
Notation S := (idxs msk 0 n).

Lemma fwd_lift_fold s0 : forall d m f, d = n - m -> m <= n -> FInv K n msk s0 m f ->
  (forall c, In c (fpiv (fold_left (fwd_step N n msk) (idxs msk m n) f)) -> c <> f0 K) ->
  fold_left (fwd_step O n msk) (idxs msk m n) (lF f) = lF (fold_left (fwd_step N n msk) (idxs msk m n) f).
Proof.
  induction d as [|d IH]; intros m f Hd Hm HF Hnz.
  - rewrite idxs_nil by lia. reflexivity.
  - rewrite idxs_cons in * by lia. destruct (sel msk m) eqn:Hs.
    + cbn [fold_left] in *.
      assert (HmS : In m S) by (apply inS; split; [lia|auto]).
      assert (Hpiv : mget N (sa (fs f)) (pget (swap_l 0 (fp f) m (find_max N (sa (fs f)) (fp f) msk n m)) m) m <> f0 K).
      { apply Hnz. apply fpiv_mono. unfold fwd_step. cbn [fpiv]. left. reflexivity. }
      assert (HF1 := fwd_step_FInv K n msk s0 f m HmS HF Hpiv).
      rewrite fwd_step_lift; [apply (IH (Datatypes.S m)); auto; lia| |right; exact Hpiv].
      intros j Hj E. assert (Hp' : pfix n msk (fp (fwd_step N n msk f m))) by apply HF1.
      unfold fwd_step in Hp'. cbn [fp] in Hp'.
      apply in_idxs in Hj. apply (pfix_inj n msk _ j m Hp') in E; lia.
    + apply (IH (Datatypes.S m)); auto; try lia. apply FInv_skip; auto.
Qed.

(* with non-zero pivots the NaN-aware run takes no singular exit: it returns the embedding of
   the field result (which satisfies the contract, gj_run_correct) *)
Lemma gj_run_nan_aware dense (s0 : st (A:=K)) :
  wf_st K n s0 -> (forall c, In c (gj_pivots N n msk s0) -> c <> f0 K) ->
  exists s', gj_run N dense false n msk s0 = Ok s' /\
             gj_run O dense false n msk (lst K s0) = Ok (lst K s').
Proof.
  intros Hwf Hnz. assert (HF := fwd_FInv K n msk s0 Hwf Hnz).
  assert (Hnz' : forall c, In c (fpiv (fwd N n msk s0)) -> c <> f0 K).
  { intros c Hc. apply Hnz. unfold gj_pivots. apply -> in_rev. exact Hc. }
  assert (EF : fwd O n msk (lst K s0) = lF (fwd N n msk s0)).
  { unfold fwd. apply (fwd_lift_fold s0 n 0%nat (mkF (seq 0 n) s0 [])); try lia.
    - apply FInv_init; auto.
    - exact Hnz'. }
  set (f := fwd N n msk s0) in *.
  assert (HB := FInv_BInv K n msk s0 f HF Hnz').
  assert (Hp : pfix n msk (fp f)) by apply HF.
  assert (Hmono : forall j i : nat, In j S -> In i S -> j < i -> (fun _ : nat => 0) j <= (fun _ : nat => 0) i) by (intros; lia).
  destruct (back_correct K n msk (fp f) Hp (fun _ => 0%nat) Hmono s0 (fs f) HB) as (s2 & E2 & HB2).
  assert (EB : back O n msk (fp f) (fun _ => 0) (lst K (fs f)) = Some (lst K s2)).
  { unfold back. rewrite (back_lift_fold n msk (fp f) Hp (fun _ => 0%nat) Hmono s0 n (fs f)); auto.
    unfold back in E2. rewrite E2. reflexivity. }
  assert (Hwf2 : wf_st K n s2) by apply HB2.
  destruct (lst_lengths n s2 Hwf2) as (L1 & L2 & L3).
  destruct Hwf2 as ((HLa & _) & (HLx & _) & HLb). destruct Hp as [HP _].
  exists (gather_st N s2 (fp f)). split.
  - unfold gj_run, gj_core. fold f. rewrite E2.
    rewrite (permute_rows_gather K N n (fp f) s2 HP HLa HLx HLb). reflexivity.
  - unfold gj_run, gj_core. rewrite EF. cbn [fp fs]. rewrite EB.
    rewrite (permute_rows_gather (option K) O n (fp f) (lst K s2) HP L1 L2 L3).
    rewrite gather_st_lift. reflexivity.
Qed.

End NaN.
