(* C04 — matrixInverse.Run in its three modes, as corollaries of the Gauss-Jordan theorems. *)
From Coq Require Import List Bool Arith Lia Field Permutation.
From ADV Require Import Base.Num C04.Model C04.Spec C04.ProofsList C04.ProofsDet C04.ProofsPerm C04.ProofsGJ
                        C04.ProofsGJ2 C04.ProofsGJ3 C04.ProofsGJ4 C04.ProofsSing.
Import ListNotations.

(* the default mask selects everything *)
Lemma sel_all_true n k : k < n -> sel (all_true n) k = true.
Proof.
  unfold sel, all_true. revert k; induction n as [|n IH]; intros k Hk; [lia|].
  destruct k; simpl; auto. apply IH. lia.
Qed.

Lemma filter_all {X} (P : X -> bool) l : (forall x, In x l -> P x = true) -> filter P l = l.
Proof.
  induction l as [|h t IH]; intros H; simpl; auto.
  rewrite (H h (or_introl eq_refl)). f_equal. apply IH. intros x Hx. apply H. right. exact Hx.
Qed.

Lemma idxs_all_true n : idxs (all_true n) 0 n = seq 0 n.
Proof.
  unfold idxs. rewrite Nat.sub_0_r. apply filter_all. intros k Hk. apply in_seq in Hk. apply sel_all_true. lia.
Qed.

Section Inv.
Variable K : fld.
Add Field KF8 : (Fth K).
Notation N := (NumK K).
Notation "0" := (f0 K). Notation "1" := (f1 K).
Infix "+" := (fadd K). Infix "*" := (fmul K). Infix "-" := (fsub K). Infix "/" := (fdiv K).

Variable n : nat.
Variable msk : list bool.
Notation S := (idxs msk 0 n).

Lemma ones_len : length (ones N n) = n.
Proof. unfold ones. apply repeat_length. Qed.

Lemma init_wf m : wf_mat K n m -> wf_st K n (mkSt m (ident N n) (ones N n)).
Proof. intros H. split; [exact H|]. split; [apply ident_wf|exact ones_len]. Qed.

Lemma ident_id_S : forall i j, In i S -> In j S -> mget N (ident N n) i j = delta K i j.
Proof. intros i j Hi Hj. apply inS in Hi, Hj. apply mget_ident; tauto. Qed.

(* from the Gauss-Jordan contract on [m | I | 1] to the contract of the inverse *)
Lemma spec_full_inv p m s' : pfix n msk p ->
  gj_spec_full K n msk p (mkSt m (ident N n) (ones N n)) s' -> inv_spec K n msk m (sx s').
Proof.
  intros Hp (Hwf & (HX & _ & _ & Hout) & Hq & HL). cbn [sa sx sb] in *.
  split; [apply Hwf|]. split; [|split; [|split]].
  - intros i j Hi Hj. rewrite HX by auto. apply ident_id_S; auto.
  - apply HL. apply ident_id_S.
  - intros i Hi Hs. apply (Hout i Hi Hs).
  - intros r k Hr Hk Hs. destruct (Hq r k Hr Hk Hs) as (_ & E). rewrite E.
    assert (HpS := pfix_S n msk p r Hp Hr). apply inS in HpS. destruct HpS as [Hpn Hps].
    rewrite mget_ident by auto. unfold delta.
    destruct (Nat.eqb_spec (pget p r) k) as [E'|]; [congruence|reflexivity].
Qed.

(* ------------------------------------------------------------------ plain mode *)
Lemma inverse_plain_correct dense (m X : list (list K)) :
  wf_mat K n m ->
  (forall c, In c (gj_pivots N n msk (mkSt m (ident N n) (ones N n))) -> c <> 0) ->
  m_inverse N dense InvPlain n msk m = Ok X -> inv_spec K n msk m X.
Proof.
  intros Hwf Hnz E. unfold m_inverse in E.
  destruct (gj_run N dense false n msk (mkSt m (ident N n) (ones N n))) as [s'| | | | | |] eqn:Er; try discriminate.
  cbn [lift_st] in E. inversion E; subst X.
  apply (spec_full_inv (fp (fwd N n msk (mkSt m (ident N n) (ones N n))))).
  - apply fwd_pfix.
  - apply (gj_run_correct K dense); auto. apply init_wf; auto.
Qed.

Lemma inverse_plain_total dense (m : list (list K)) :
  wf_mat K n m ->
  (forall c, In c (gj_pivots N n msk (mkSt m (ident N n) (ones N n))) -> c <> 0) ->
  exists X, m_inverse N dense InvPlain n msk m = Ok X.
Proof.
  intros Hwf Hnz. destruct (gj_run_total K dense n msk _ (init_wf m Hwf) Hnz) as (s' & E).
  exists (sx s'). unfold m_inverse. rewrite E. reflexivity.
Qed.

(* ------------------------------------------------------------------ upper triangular mode *)
Lemma ident_upper : upper_tri_S K S (ident N n).
Proof.
  intros r c Hr Hc Hlt. rewrite ident_id_S by auto. unfold delta.
  destruct (Nat.eqb_spec r c); [lia|reflexivity].
Qed.

Lemma inverse_ut_correct dense (m X : list (list K)) :
  wf_mat K n m -> upper_tri_S K S m -> diag_nonzero_S K S m ->
  m_inverse N dense InvUT n msk m = Ok X -> inv_spec K n msk m X.
Proof.
  intros Hwf HU HD E. unfold m_inverse in E.
  destruct (gj_run N dense true n msk (mkSt m (ident N n) (ones N n))) as [s'| | | | | |] eqn:Er; try discriminate.
  cbn [lift_st] in E. inversion E; subst X.
  apply (spec_full_inv (seq 0 n)); [apply pfix_id|].
  apply (gj_run_ut_correct K dense); auto; [apply init_wf; auto|apply ident_upper].
Qed.

Lemma inverse_ut_total dense (m : list (list K)) :
  wf_mat K n m -> upper_tri_S K S m -> diag_nonzero_S K S m ->
  exists X, m_inverse N dense InvUT n msk m = Ok X.
Proof.
  intros Hwf HU HD.
  destruct (gj_run_ut_total K dense n msk _ (init_wf m Hwf) HU HD ident_upper) as (s' & E).
  exists (sx s'). unfold m_inverse. rewrite E. reflexivity.
Qed.

(* ------------------------------------------------------------------ sums and products of index functions *)
Lemma sumL_scal_l ks c (f : nat -> K) : sumL K ks (fun k => c * f k) = c * sumL K ks f.
Proof. induction ks as [|k t IH]; simpl; [ring|]. rewrite IH. ring. Qed.
Lemma sumL_scal_r ks c (f : nat -> K) : sumL K ks (fun k => f k * c) = sumL K ks f * c.
Proof. induction ks as [|k t IH]; simpl; [ring|]. rewrite IH. ring. Qed.
Lemma sumL_plus ks (f g : nat -> K) : sumL K ks (fun k => f k + g k) = sumL K ks f + sumL K ks g.
Proof. induction ks as [|k t IH]; simpl; [ring|]. rewrite IH. ring. Qed.
Lemma sumL_swap ks ls (f : nat -> nat -> K) :
  sumL K ks (fun k => sumL K ls (fun l => f k l)) = sumL K ls (fun l => sumL K ks (fun k => f k l)).
Proof.
  induction ks as [|k t IH]; simpl.
  - symmetry. apply sumL_zero. auto.
  - rewrite IH. symmetry. apply sumL_plus.
Qed.

Lemma sumL_filter (P : nat -> bool) l (f : nat -> K) :
  (forall k, In k l -> P k = false -> f k = 0) -> sumL K l f = sumL K (filter P l) f.
Proof.
  induction l as [|h t IH]; intros H; simpl; auto.
  rewrite IH by (intros k Hk; apply H; right; exact Hk).
  destruct (P h) eqn:E; simpl; [reflexivity|]. rewrite (H h (or_introl eq_refl) E). ring.
Qed.

Lemma sumL_sel (f : nat -> K) : (forall k, k < n -> sel msk k = false -> f k = 0) -> sumL K (seq 0 n) f = sumL K S f.
Proof.
  intros H. unfold idxs. rewrite Nat.sub_0_r. apply sumL_filter. intros k Hk. apply in_seq in Hk. apply H. lia.
Qed.

Definition mm (f g : nat -> nat -> K) (i j : nat) : K := sumL K S (fun k => f i k * g k j).

Lemma mm_ext f f' g g' i j :
  (forall k, In k S -> f i k = f' i k) -> (forall k, In k S -> g k j = g' k j) -> mm f g i j = mm f' g' i j.
Proof. intros H1 H2. unfold mm. apply sumL_ext. intros k Hk. rewrite H1, H2 by auto. reflexivity. Qed.

Lemma mm_assoc f g h i j : mm (mm f g) h i j = mm f (mm g h) i j.
Proof.
  unfold mm.
  rewrite (sumL_ext K S _ (fun k => sumL K S (fun l => f i l * g l k * h k j))).
  2:{ intros k _. symmetry. apply sumL_scal_r. }
  rewrite sumL_swap. apply sumL_ext. intros l _.
  rewrite <- sumL_scal_l. apply sumL_ext. intros k _. ring.
Qed.

Lemma mm_delta_l g i j : In i S -> mm (delta K) g i j = g i j.
Proof. intros Hi. unfold mm. apply (sumL_delta K S i (fun k => g k j)); auto. apply NoDup_idxs. Qed.

(* ------------------------------------------------------------------ positive definite mode *)
Lemma mget_transpose (L : list (list K)) i j : i < n -> j < n -> mget N (transpose N n L) i j = mget N L j i.
Proof.
  intros Hi Hj. unfold transpose. unfold mget at 1. unfold row, vget.
  rewrite nth_map_seq by auto. rewrite nth_map_seq by auto. reflexivity.
Qed.

Lemma transpose_wf (L : list (list K)) : wf_mat K n (transpose N n L).
Proof.
  split; [unfold transpose; rewrite map_length, seq_length; auto|].
  apply Forall_forall. intros r Hr. unfold transpose in Hr. apply in_map_iff in Hr.
  destruct Hr as (i & <- & _). rewrite map_length, seq_length. auto.
Qed.

Lemma add_loop ks (g : nat -> K) acc :
  fold_left (fun t2 k => add N t2 (g k)) ks acc = acc + sumL K ks g.
Proof. revert acc; induction ks as [|k t IH]; intros acc; simpl; [ring|]. rewrite IH. ring. Qed.

Lemma mget_mul_xxt (X : list (list K)) i j : i < n -> j < n ->
  mget N (mul_xxt N n X) i j = sumL K (seq 0 n) (fun k => mget N X i k * mget N X j k).
Proof.
  intros Hi Hj. unfold mul_xxt. unfold mget at 1. unfold row, vget.
  rewrite nth_map_seq by auto. rewrite nth_map_seq by auto.
  rewrite (add_loop (seq 0 n) (fun k => mget N X i k * mget N X j k)). simpl. ring.
Qed.

Lemma delta_sym i j : delta K i j = delta K j i.
Proof. unfold delta. rewrite Nat.eqb_sym. reflexivity. Qed.

(* PositiveDefinite: R = X * X^T with X = (L^T)^-1 on the selection.  Hypotheses on the Cholesky
   factor L (not proved here): lower triangular, non-zero diagonal, L * L^T = m.  The selection must
   be a LEADING BLOCK (prefix_mask): for any other selection the code inverts a different matrix —
   known finding F-C04-PD-SUBMATRIX, SpecTest.inverse_pd_submatrix_refuted. *)
Lemma inverse_pd_correct dense q (m L R : list (list K)) :
  lower_tri K n L -> diag_nonzero K n L ->
  (forall i j, i < n -> j < n -> sumL K (seq 0 n) (fun k => mget N L i k * mget N L j k) = mget N m i j) ->
  prefix_mask n q msk ->
  cholesky N n m (zmat N n) = Ok L ->
  m_inverse N dense InvPD n msk m = Ok R ->
  forall i j, In i S -> In j S -> mulS K S m R i j = delta K i j.
Proof.
  intros HLT HD HLL [Hq Hpre] Hch E. unfold m_inverse in E. rewrite Hch in E.
  set (U := transpose N n L) in *.
  destruct (gj_run N dense true n msk (mkSt U (ident N n) (ones N n))) as [s'| | | | | |] eqn:Er; try discriminate.
  cbn [lift_st] in E. inversion E; subst R. clear E.
  assert (HSq : forall k, In k S <-> k < q).
  { intros k. rewrite (inS n msk). split.
    - intros [Hk Hs]. rewrite Hpre in Hs by auto. apply Nat.ltb_lt. exact Hs.
    - intros Hk. assert (k < n) by lia. split; [auto|]. rewrite Hpre by auto. apply Nat.ltb_lt. exact Hk. }
  assert (HSn : forall k, In k S -> k < n) by (intros k Hk; apply inS in Hk; tauto).
  assert (HUS : upper_tri_S K S U).
  { intros r c Hr Hc Hlt. unfold U. rewrite mget_transpose by auto. apply HLT; auto. }
  assert (HUD : diag_nonzero_S K S U).
  { intros c Hc. unfold U. rewrite mget_transpose by auto. apply HD; auto. }
  assert (Hinv : inv_spec K n msk U (sx s')).
  { apply (spec_full_inv (seq 0 n)); [apply pfix_id|].
    apply (gj_run_ut_correct K dense); auto; [apply init_wf; apply transpose_wf|apply ident_upper]. }
  destruct Hinv as (_ & HR & HLinv & _ & Hzero).
  set (X := sx s') in *.
  set (Lf := mget N L). set (Uf := fun k j => mget N L j k). set (Xf := mget N X). set (XTf := fun k j => mget N X j k).
  (* the selected block of R and of m as products over the selection *)
  assert (HRf : forall k j, In k S -> In j S -> mget N (mul_xxt N n X) k j = mm Xf XTf k j).
  { intros k j Hk Hj. rewrite mget_mul_xxt by auto. unfold mm. apply sumL_sel.
    intros l Hl Hs. unfold Xf, XTf. rewrite (Hzero k l Hk Hl Hs). ring. }
  assert (Hmf : forall i k, In i S -> In k S -> mget N m i k = mm Lf Uf i k).
  { intros i k Hi Hk. rewrite <- HLL by auto. unfold mm. apply sumL_sel.
    intros l Hl Hs. unfold Lf. rewrite (HLT i l); [ring| |auto].
    apply HSq in Hi. rewrite Hpre in Hs by auto. apply Nat.ltb_ge in Hs. lia. }
  assert (HUX : forall l r, In l S -> In r S -> mm Uf Xf l r = delta K l r).
  { intros l r Hl Hr. rewrite <- (HR l r Hl Hr). unfold mulS, mm. apply sumL_ext. intros k Hk.
    unfold Uf, U. rewrite mget_transpose by auto. reflexivity. }
  assert (HXU : forall l r, In l S -> In r S -> mm Xf Uf l r = delta K l r).
  { intros l r Hl Hr. rewrite <- (HLinv l r Hl Hr). unfold mulS, mm. apply sumL_ext. intros k Hk.
    unfold Uf, U. rewrite mget_transpose by auto. reflexivity. }
  intros i j Hi Hj.
  change (mulS K S m (mul_xxt N n X) i j) with (mm (mget N m) (mget N (mul_xxt N n X)) i j).
  rewrite (mm_ext _ (mm Lf Uf) _ (mm Xf XTf) i j); [|intros k Hk; apply Hmf; auto|intros k Hk; apply HRf; auto].
  rewrite mm_assoc.
  rewrite (mm_ext Lf Lf _ (mm (mm Uf Xf) XTf) i j); [|reflexivity|intros k Hk; symmetry; apply mm_assoc].
  rewrite (mm_ext Lf Lf _ XTf i j); [|reflexivity|].
  2:{ intros k Hk. rewrite (mm_ext _ (delta K) XTf XTf k j); [apply mm_delta_l; auto| |reflexivity].
      intros r Hr. apply HUX; auto. }
  rewrite delta_sym. rewrite <- (HXU j i Hj Hi). unfold mm. apply sumL_ext. intros l _.
  unfold Lf, XTf, Xf, Uf. ring.
Qed.

End Inv.

(* the default (nil) Submatrix: the whole matrix *)
Lemma inverse_plain_full (K : fld) dense n (m X : list (list K)) :
  wf_mat K n m ->
  (forall c, In c (gj_pivots (NumK K) n (all_true n) (mkSt m (ident (NumK K) n) (ones (NumK K) n))) -> c <> f0 K) ->
  m_inverse (NumK K) dense InvPlain n (all_true n) m = Ok X ->
  (forall i j, i < n -> j < n -> mulS K (seq 0 n) m X i j = delta K i j) /\
  (forall i j, i < n -> j < n -> mulS K (seq 0 n) X m i j = delta K i j).
Proof.
  intros Hwf Hnz E. destruct (inverse_plain_correct K n (all_true n) dense m X Hwf Hnz E) as (_ & H1 & H2 & _).
  rewrite idxs_all_true in *. split; intros i j Hi Hj; [apply H1|apply H2]; apply in_seq; lia.
Qed.
