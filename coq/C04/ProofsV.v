(* C04 round 6 — views of a larger workspace: what vload / vstore / SwapRows-on-a-view compute, for
   EVERY carrier and every well-formed n x n view header (any Slice / T chain: only view_ok is used). *)
From Coq Require Import List Bool Arith ZArith Lia.
From ADV Require Import Base.Num C04.Model C04.ModelV C04.ProofsList C04.ProofsBuf C10.Gen.
Import ListNotations.
Local Open Scope nat_scope.

Section V.
Context {A : Type} (N : Num A).
Variables (len n : nat) (h : hdr).
Hypothesis Hok : view_ok len n h = true.

Lemma view_ok_facts :
  d_rows h = Z.of_nat n /\ d_cols h = Z.of_nat n /\ (0 <= d_rowOffset h)%Z /\ (0 <= d_colOffset h)%Z /\
  (d_rowOffset h + d_rows h <= d_rowMax h)%Z /\ (d_colOffset h + d_cols h <= d_colMax h)%Z /\
  Z.of_nat len = (d_rowMax h * d_colMax h)%Z.
Proof.
  unfold view_ok in Hok. repeat rewrite andb_true_iff in Hok.
  destruct Hok as [[[[[[H1 H2] H3] H4] H5] H6] H7].
  apply Z.eqb_eq in H1. apply Z.eqb_eq in H2. apply Z.leb_le in H3. apply Z.leb_le in H4.
  apply Z.leb_le in H5. apply Z.leb_le in H6. apply Z.eqb_eq in H7. repeat split; assumption.
Qed.

Definition zaddr (i j : nat) : Z :=
  if d_transposed h
  then ((d_colOffset h + Z.of_nat j) * d_rowMax h + (d_rowOffset h + Z.of_nat i))%Z
  else ((d_rowOffset h + Z.of_nat i) * d_colMax h + (d_colOffset h + Z.of_nat j))%Z.

Lemma sidx_eq i j : i < n -> j < n -> sidx h i j = Some (Z.to_nat (zaddr i j)).
Proof.
  intros Hi Hj. destruct view_ok_facts as (R & C & _).
  unfold sidx, DenseP.index, zaddr. rewrite R, C.
  replace (Z.of_nat i <? 0)%Z with false by (symmetry; apply Z.ltb_ge; lia).
  replace (Z.of_nat j <? 0)%Z with false by (symmetry; apply Z.ltb_ge; lia).
  replace (Z.of_nat i >=? Z.of_nat n)%Z with false by (symmetry; rewrite Z.geb_leb; apply Z.leb_gt; lia).
  replace (Z.of_nat j >=? Z.of_nat n)%Z with false by (symmetry; rewrite Z.geb_leb; apply Z.leb_gt; lia).
  simpl. destruct (d_transposed h); reflexivity.
Qed.

Lemma sidx_range i j k : sidx h i j = Some k -> i < n /\ j < n.
Proof.
  destruct view_ok_facts as (R & C & _).
  unfold sidx, DenseP.index. rewrite R, C.
  destruct (Z.of_nat i <? 0)%Z eqn:E1; [simpl; discriminate|].
  destruct (Z.of_nat j <? 0)%Z eqn:E2; [simpl; discriminate|].
  destruct (Z.of_nat i >=? Z.of_nat n)%Z eqn:E3; [simpl; discriminate|].
  destruct (Z.of_nat j >=? Z.of_nat n)%Z eqn:E4; [simpl; discriminate|].
  intros _. rewrite Z.geb_leb in E3, E4. apply Z.leb_gt in E3. apply Z.leb_gt in E4. lia.
Qed.

Lemma zaddr_bounds i j : i < n -> j < n -> (0 <= zaddr i j < Z.of_nat len)%Z.
Proof.
  intros Hi Hj. destruct view_ok_facts as (R & C & Hro & Hco & Hrm & Hcm & Hl).
  unfold zaddr. rewrite Hl. rewrite R in Hrm. rewrite C in Hcm. destruct (d_transposed h); nia.
Qed.

Lemma zaddr_inj i j i' j' : i < n -> j < n -> i' < n -> j' < n -> zaddr i j = zaddr i' j' -> i = i' /\ j = j'.
Proof.
  intros Hi Hj Hi' Hj'. destruct view_ok_facts as (R & C & Hro & Hco & Hrm & Hcm & Hl).
  unfold zaddr. rewrite R in Hrm. rewrite C in Hcm. destruct (d_transposed h); intros E.
  - assert (d_colOffset h + Z.of_nat j = d_colOffset h + Z.of_nat j')%Z by nia. split; nia.
  - assert (d_rowOffset h + Z.of_nat i = d_rowOffset h + Z.of_nat i')%Z by nia. split; nia.
Qed.

Lemma sidx_some i j : i < n -> j < n -> exists k, sidx h i j = Some k /\ k < len.
Proof.
  intros Hi Hj. exists (Z.to_nat (zaddr i j)). split; [apply sidx_eq; auto|].
  pose proof (zaddr_bounds i j Hi Hj). lia.
Qed.

Lemma sidx_inj i j i' j' k : sidx h i j = Some k -> sidx h i' j' = Some k -> i = i' /\ j = j'.
Proof.
  intros E1 E2. destruct (sidx_range _ _ _ E1) as [Hi Hj]. destruct (sidx_range _ _ _ E2) as [Hi' Hj'].
  rewrite sidx_eq in E1, E2 by auto. inversion E1 as [F1]. inversion E2 as [F2].
  apply zaddr_inj; auto.
  pose proof (zaddr_bounds i j Hi Hj). pose proof (zaddr_bounds i' j' Hi' Hj'). lia.
Qed.

(* ---------------------------------------------------------------- addressed / not addressed cells *)
Definition nohit (k : nat) : Prop := forall i j, i < n -> j < n -> sidx h i j <> Some k.
Definition hitb (k : nat) (p : nat * nat) : bool :=
  match sidx h (fst p) (snd p) with Some k' => Nat.eqb k' k | None => false end.

Lemma in_poss i j : In (i, j) (poss n) <-> i < n /\ j < n.
Proof.
  unfold poss. rewrite in_flat_map. split.
  - intros (x & Hx & Hin). apply in_map_iff in Hin. destruct Hin as (y & E & Hy). inversion E; subst.
    apply in_seq in Hx. apply in_seq in Hy. lia.
  - intros [Hi Hj]. exists i. split; [apply in_seq; lia|]. apply in_map_iff. exists j. split; [reflexivity|apply in_seq; lia].
Qed.

Lemma hit_dec k : (exists i j, i < n /\ j < n /\ sidx h i j = Some k) \/ nohit k.
Proof.
  destruct (find (hitb k) (poss n)) as [[i j]|] eqn:E.
  - apply find_some in E. destruct E as [Hin Hb]. apply in_poss in Hin. left. exists i, j.
    unfold hitb in Hb. simpl in Hb. destruct (sidx h i j) as [k'|] eqn:E'; [|discriminate].
    apply Nat.eqb_eq in Hb. subst. tauto.
  - right. intros i j Hi Hj Hs. pose proof (find_none _ _ E (i, j)) as F.
    unfold hitb in F. simpl in F. rewrite Hs, Nat.eqb_refl in F. specialize (F (proj2 (in_poss i j) (conj Hi Hj))). discriminate.
Qed.

(* ---------------------------------------------------------------- a sequence of writes through the view *)
Definition wr (g : nat * nat -> A) (s : list A) (p : nat * nat) : list A := vput s h (fst p) (snd p) (g p).

Lemma wr_length g s p : length (wr g s p) = length s.
Proof. unfold wr, vput. destruct (sidx h (fst p) (snd p)); [apply length_upd|reflexivity]. Qed.

Lemma fold_wr_length g l : forall s, length (fold_left (wr g) l s) = length s.
Proof. induction l as [|p l IH]; intros s; simpl; [reflexivity|]. rewrite IH. apply wr_length. Qed.

Lemma fold_wr_other g l k d : (forall p, In p l -> sidx h (fst p) (snd p) <> Some k) ->
  forall s, nth k (fold_left (wr g) l s) d = nth k s d.
Proof.
  induction l as [|p l IH]; intros Hn s; simpl; [reflexivity|].
  rewrite IH by (intros q Hq; apply Hn; right; exact Hq).
  unfold wr, vput. destruct (sidx h (fst p) (snd p)) as [k'|] eqn:E; [|reflexivity].
  apply nth_upd_other. intros ->. apply (Hn p); [left; reflexivity|exact E].
Qed.

Lemma fold_wr_hit g l : forall s p0 k d, In p0 l -> sidx h (fst p0) (snd p0) = Some k -> k < length s ->
  (forall p, In p l -> sidx h (fst p) (snd p) = Some k -> g p = g p0) ->
  nth k (fold_left (wr g) l s) d = g p0.
Proof.
  induction l as [|q l IH] using rev_ind; intros s p0 k d Hin Hs Hk Hg; [destruct Hin|].
  rewrite fold_left_app. simpl. unfold wr at 1, vput.
  destruct (sidx h (fst q) (snd q)) as [k'|] eqn:E.
  - destruct (Nat.eq_dec k' k) as [->|Hne].
    + rewrite nth_upd_same by (rewrite fold_wr_length; exact Hk).
      apply Hg; [apply in_or_app; right; left; reflexivity|exact E].
    + rewrite nth_upd_other by exact Hne.
      apply in_app_or in Hin. destruct Hin as [Hin|[->|[]]].
      * apply IH; auto. intros p Hp. apply Hg. apply in_or_app. left. exact Hp.
      * congruence.
  - apply in_app_or in Hin. destruct Hin as [Hin|[->|[]]].
    + apply IH; auto. intros p Hp. apply Hg. apply in_or_app. left. exact Hp.
    + congruence.
Qed.

(* ---------------------------------------------------------------- vstore *)
Lemma vstore_length s m : length (vstore N n s h m) = length s.
Proof. unfold vstore. apply (fold_wr_length (fun p => mget N m (fst p) (snd p))). Qed.

Lemma vstore_hit s m i j k d : length s = len -> sidx h i j = Some k -> nth k (vstore N n s h m) d = mget N m i j.
Proof.
  intros HL Hs. destruct (sidx_range _ _ _ Hs) as [Hi Hj].
  unfold vstore. apply (fold_wr_hit (fun p => mget N m (fst p) (snd p)) (poss n) s (i, j) k d).
  - apply in_poss. auto.
  - exact Hs.
  - destruct (sidx_some i j Hi Hj) as (k' & E & Hk'). rewrite Hs in E. inversion E; subst. lia.
  - intros [i' j'] _ Hs'. simpl in *. destruct (sidx_inj _ _ _ _ _ Hs' Hs) as [-> ->]. reflexivity.
Qed.

Lemma vstore_other s m k d : nohit k -> nth k (vstore N n s h m) d = nth k s d.
Proof.
  intros Hn. unfold vstore. apply (fold_wr_other (fun p => mget N m (fst p) (snd p))).
  intros [i j] Hin. apply in_poss in Hin. apply Hn; tauto.
Qed.

Lemma cell_vstore s m i j : length s = len -> i < n -> j < n -> cell N (vstore N n s h m) h i j = mget N m i j.
Proof.
  intros HL Hi Hj. unfold cell. destruct (sidx_some i j Hi Hj) as (k & E & Hk). rewrite E.
  apply (vstore_hit s m i j k); auto.
Qed.

Lemma vstore_frame_all s m : length s = len ->
  length (vstore N n s h m) = len /\
  (forall i j k d, sidx h i j = Some k -> nth k (vstore N n s h m) d = mget N m i j) /\
  (forall k d, nohit k -> nth k (vstore N n s h m) d = nth k s d).
Proof.
  intros HL. split; [rewrite vstore_length; exact HL|]. split.
  - intros i j k d Hs. apply (vstore_hit s m i j k d HL Hs).
  - intros k d Hn. apply vstore_other. exact Hn.
Qed.

(* two storages that agree on the view and off the view are equal *)
Lemma storage_ext (t1 t2 : list A) : length t1 = len -> length t2 = len ->
  (forall i j, i < n -> j < n -> cell N t1 h i j = cell N t2 h i j) ->
  (forall k, nohit k -> nth k t1 (zero N) = nth k t2 (zero N)) -> t1 = t2.
Proof.
  intros H1 H2 Hc Hf. apply (nth_ext_eq (zero N)); [congruence|].
  intros k Hk. destruct (hit_dec k) as [(i & j & Hi & Hj & Hs)|Hn]; [|apply Hf; exact Hn].
  specialize (Hc i j Hi Hj). unfold cell in Hc. rewrite Hs in Hc. exact Hc.
Qed.

Lemma vload_wfm s : wfm n (vload N n s h).
Proof. apply tab_wfm. Qed.

Lemma mget_vload s i j : i < n -> j < n -> mget N (vload N n s h) i j = cell N s h i j.
Proof. intros Hi Hj. unfold vload. apply (mget_tab N n (fun i j => cell N s h i j)); auto. Qed.

(* reading back what was written through the view *)
Lemma vload_vstore s m : length s = len -> wfm n m -> vload N n (vstore N n s h m) h = m.
Proof.
  intros HL Hm. apply (mat_ext N n); [apply vload_wfm|exact Hm|].
  intros i j Hi Hj. rewrite mget_vload by auto. apply cell_vstore; auto.
Qed.

(* writing back what the view holds changes nothing *)
Lemma vstore_vload s : length s = len -> vstore N n s h (vload N n s h) = s.
Proof.
  intros HL. apply storage_ext; [rewrite vstore_length; exact HL|exact HL| |].
  - intros i j Hi Hj. rewrite cell_vstore by auto. apply mget_vload; auto.
  - intros k Hn. apply vstore_other. exact Hn.
Qed.

(* the last write through a view wins *)
Lemma vstore_vstore s m1 m2 : length s = len -> vstore N n (vstore N n s h m1) h m2 = vstore N n s h m2.
Proof.
  intros HL. apply storage_ext; [rewrite !vstore_length; exact HL|rewrite vstore_length; exact HL| |].
  - intros i j Hi Hj. rewrite !cell_vstore by (auto; rewrite vstore_length; auto). reflexivity.
  - intros k Hn. rewrite !vstore_other by exact Hn. reflexivity.
Qed.

(* ---------------------------------------------------------------- SwapRows on a view *)
Definition swaprow (i j i0 : nat) : nat := if Nat.eqb i0 j then i else if Nat.eqb i0 i then j else i0.

Lemma mget_swap_rows (m : list (list A)) i j i0 j0 : wfm n m -> i < n -> j < n ->
  mget N (swap_l [] m i j) i0 j0 = mget N m (swaprow i j i0) j0.
Proof.
  intros [HL _] Hi Hj. unfold mget, row, swaprow. rewrite nth_swap_l by lia.
  destruct (Nat.eqb i0 j); [reflexivity|]. destruct (Nat.eqb i0 i); reflexivity.
Qed.

Lemma wfm_swap_l (m : list (list A)) i j : wfm n m -> i < n -> j < n -> wfm n (swap_l [] m i j).
Proof.
  intros [HL HF] Hi Hj. split; [rewrite swap_l_length; exact HL|].
  unfold swap_l. rewrite Forall_forall in HF.
  apply Forall_upd'; [apply Forall_upd'; [apply Forall_forall; exact HF|]|]; apply HF; apply nth_In; lia.
Qed.

(* invariant of the column loop of SwapRows: columns < c are swapped, the rest and the frame untouched *)
Definition sw_inv (s : list A) (i j c : nat) (t : list A) : Prop :=
  length t = len /\
  (forall i0 j0, i0 < n -> j0 < n ->
     cell N t h i0 j0 = if j0 <? c then cell N s h (swaprow i j i0) j0 else cell N s h i0 j0) /\
  (forall k, nohit k -> nth k t (zero N) = nth k s (zero N)).

Lemma v_swap_step s i j c t : i < n -> j < n -> c < n -> sw_inv s i j c t ->
  exists t', v_swap N t h i c j c = Some t' /\ sw_inv s i j (S c) t'.
Proof.
  intros Hi Hj Hc (HL & Hcell & Hfr).
  destruct (sidx_some i c Hi Hc) as (k1 & E1 & Hk1). destruct (sidx_some j c Hj Hc) as (k2 & E2 & Hk2).
  unfold v_swap. rewrite E1, E2. eexists. split; [reflexivity|].
  assert (C1 : nth k1 t (zero N) = cell N s h i c).
  { pose proof (Hcell i c Hi Hc) as Q. unfold cell at 1 in Q. rewrite E1 in Q. rewrite Nat.ltb_irrefl in Q. exact Q. }
  assert (C2 : nth k2 t (zero N) = cell N s h j c).
  { pose proof (Hcell j c Hj Hc) as Q. unfold cell at 1 in Q. rewrite E2 in Q. rewrite Nat.ltb_irrefl in Q. exact Q. }
  split; [rewrite !length_upd; exact HL|]. split.
  - intros i0 j0 Hi0 Hj0. destruct (sidx_some i0 j0 Hi0 Hj0) as (k0 & E0 & Hk0).
    unfold cell at 1. rewrite E0.
    destruct (Nat.eq_dec k0 k2) as [->|Hn2].
    + destruct (sidx_inj _ _ _ _ _ E0 E2) as [-> ->].
      rewrite nth_upd_same by (rewrite length_upd; lia). rewrite C1.
      replace (c <? S c) with true by (symmetry; apply Nat.ltb_lt; lia).
      unfold swaprow. rewrite Nat.eqb_refl. reflexivity.
    + rewrite nth_upd_other by auto.
      destruct (Nat.eq_dec k0 k1) as [->|Hn1].
      * destruct (sidx_inj _ _ _ _ _ E0 E1) as [-> ->].
        rewrite nth_upd_same by lia. rewrite C2.
        replace (c <? S c) with true by (symmetry; apply Nat.ltb_lt; lia).
        unfold swaprow. destruct (Nat.eqb_spec i j) as [->|Hij]; [reflexivity|]. rewrite Nat.eqb_refl. reflexivity.
      * rewrite nth_upd_other by auto.
        pose proof (Hcell i0 j0 Hi0 Hj0) as Q. unfold cell at 1 in Q. rewrite E0 in Q. rewrite Q.
        destruct (Nat.eq_dec j0 c) as [->|Hjc].
        -- rewrite Nat.ltb_irrefl. replace (c <? S c) with true by (symmetry; apply Nat.ltb_lt; lia).
           assert (i0 <> j) by (intros ->; rewrite E2 in E0; congruence).
           assert (i0 <> i) by (intros ->; rewrite E1 in E0; congruence).
           unfold swaprow. destruct (Nat.eqb_spec i0 j); [contradiction|]. destruct (Nat.eqb_spec i0 i); [contradiction|]. reflexivity.
        -- replace (j0 <? S c) with (j0 <? c); [reflexivity|].
           destruct (Nat.ltb_spec j0 c); destruct (Nat.ltb_spec j0 (S c)); try reflexivity; lia.
  - intros k Hn. rewrite nth_upd_other by (intros ->; apply (Hn j c Hj Hc); exact E2).
    rewrite nth_upd_other by (intros ->; apply (Hn i c Hi Hc); exact E1). apply Hfr. exact Hn.
Qed.

Lemma v_swap_rows_loop s i j : i < n -> j < n -> forall c, c <= n -> length s = len ->
  exists t, fold_left (fun o k => match o with Some s => v_swap N s h i k j k | None => None end) (seq 0 c) (Some s) = Some t /\
            sw_inv s i j c t.
Proof.
  intros Hi Hj. induction c as [|c IH]; intros Hc HL.
  - exists s. split; [reflexivity|]. split; [exact HL|]. split; [intros; reflexivity|intros; reflexivity].
  - destruct (IH (Nat.lt_le_incl _ _ Hc) HL) as (t & E & Hinv).
    rewrite seq_S, fold_left_app, E. simpl.
    destruct (v_swap_step s i j c t Hi Hj Hc Hinv) as (t' & E' & Hinv'). exists t'. split; assumption.
Qed.

(* (matrix).SwapRows(i, j) on a view = the logical row swap, written through; nothing else moves *)
Lemma v_swap_rows_spec s i j : length s = len -> i < n -> j < n ->
  v_swap_rows N n s h i j = Some (vstore N n s h (swap_l [] (vload N n s h) i j)).
Proof.
  intros HL Hi Hj. destruct (v_swap_rows_loop s i j Hi Hj n (le_n n) HL) as (t & E & (HLt & Hcell & Hfr)).
  unfold v_swap_rows. rewrite E. f_equal.
  apply storage_ext; [exact HLt|rewrite vstore_length; exact HL| |].
  - intros i0 j0 Hi0 Hj0. rewrite (Hcell i0 j0 Hi0 Hj0).
    replace (j0 <? n) with true by (symmetry; apply Nat.ltb_lt; exact Hj0).
    rewrite cell_vstore by auto. rewrite mget_swap_rows by (auto; apply vload_wfm).
    rewrite mget_vload; [reflexivity| |exact Hj0].
    unfold swaprow. destruct (Nat.eqb i0 j); [exact Hi|]. destruct (Nat.eqb i0 i); [exact Hj|exact Hi0].
  - intros k Hn. rewrite (Hfr k Hn). symmetry. apply vstore_other. exact Hn.
Qed.

End V.
