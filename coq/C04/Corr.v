(* C04 correspondence: the model instantiated at Coq's primitive binary64
   floats is run on the inputs the Go harness used and every returned number is
   compared bit for bit (feqb: +0/-0 distinguished, NaNs identified); plus an
   exact rational residual check of Go's output (no float arithmetic trusted). *)
From Coq Require Import List Bool Arith ZArith QArith Qabs Floats SpecFloat.
From ADV Require Import Base.Num Base.Corr C04.Model C04.Model2 C04.Model3 C04.ModelV C04.ModelV2.
Import ListNotations.
Local Open Scope nat_scope.

Definition fvec := list float.
Definition fmat := list (list float).

Definition veq (a b : fvec) : bool := list_eqb feqb a b.
Definition meq (a b : fmat) : bool := list_eqb veq a b.

Definition out_eqb {T} (e : T -> T -> bool) (a b : outcome T) : bool :=
  match a, b with
  | Ok x, Ok y => e x y
  | ErrSingular, ErrSingular | PanicSingular, PanicSingular | ErrNotPD, ErrNotPD
  | ErrPerm, ErrPerm | PanicIndex, PanicIndex => true
  | _, _ => false
  end.

Definition st_eqb (s t : st (A:=float)) : bool :=
  meq (sa s) (sa t) && meq (sx s) (sx t) && veq (sb s) (sb t).

Definition mode_of (k : nat) : inv_mode := match k with 0 => InvPlain | 1 => InvUT | _ => InvPD end.

(* ---- exact rational residual: max_i sum_j | (A_S X_S - I_S)[i,j] |  <= tol ---- *)
Definition q_of (x : float) : Q := match F2Q x with Some q => q | None => 0%Q end.
Definition finite (x : float) : bool := match F2Q x with Some _ => true | None => false end.
Definition qsum (l : list Q) : Q := Qred (fold_left Qplus l 0%Q).

Definition residual (n : nat) (msk : list bool) (A X : fmat) : Q :=
  let ks := idxs msk 0 n in
  let qa := map (map q_of) A in
  let qx := map (map q_of) X in
  fold_left (fun acc i =>
      let rs := qsum (map (fun j =>
                  Qabs (Qred (qsum (map (fun k => Qmult (mget NumQ qa i k) (mget NumQ qx k j)) ks)
                        - (if Nat.eqb i j then 1 else 0))%Q)) ks) in
      if Qle_bool acc rs then rs else acc) ks 0%Q.

Definition residual_vec (n : nat) (msk : list bool) (A : fmat) (x b : fvec) : Q :=
  let ks := idxs msk 0 n in
  let qa := map (map q_of) A in
  let qx := map q_of x in let qb := map q_of b in
  fold_left (fun acc i =>
      let r := Qabs (Qred (qsum (map (fun k => Qmult (mget NumQ qa i k) (vget NumQ qx k)) ks) - vget NumQ qb i)%Q) in
      if Qle_bool acc r then r else acc) ks 0%Q.

Definition all_finite_m (m : fmat) : bool := forallb (forallb finite) m.

(* ---- round 3: the binary32 instance (Float32 / Real32 element types) ----
   float32(x): rounding to binary32 by SpecFloat.binary_normalize 24 128 (nearest even, binary32
   exponent range incl. subnormals and overflow); every binary32 number is a binary64 number, so
   values are carried as Coq floats.  Float32 computes x op y in binary32, Real32 computes it in
   binary64 and stores float32(.): both are r32 (x op64 y) — the double rounding is innocuous for
   + - * / sqrt because 53 >= 2*24+2.  Abs and the comparisons are exact. *)
Definition r32 (x : float) : float :=
  match Prim2SF x with
  | S754_finite s m e => SF2Prim (binary_normalize 24 128 (if s then Zneg m else Zpos m) e s)
  | _ => x
  end.
Definition NumF32 : Num float :=
  mkNum float PrimFloat.zero PrimFloat.one
        (fun x y => r32 (PrimFloat.add x y)) (fun x y => r32 (PrimFloat.sub x y))
        (fun x y => r32 (PrimFloat.mul x y)) (fun x y => r32 (PrimFloat.div x y))
        PrimFloat.opp PrimFloat.abs (fun x => r32 (PrimFloat.sqrt x))
        PrimFloat.ltb PrimFloat.leb PrimFloat.eqb
        (fun z => r32 (of_Z NumF z)) (is_nan NumF).

(* element types: 0 Float32, 1 Float64, 2 Real32, 3 Real64 *)
Definition et32 (et : nat) : bool := match et with 0 | 2 => true | _ => false end.
Definition num_of (et : nat) : Num float := if et32 et then NumF32 else NumF.
Definition dense_of (et : nat) : bool := Nat.eqb et 1.   (* only DenseFloat64 has the fast path *)
(* the containers are filled with float32(x) / x *)
Definition inv_ (et : nat) (v : fvec) : fvec := if et32 et then map r32 v else v.
Definition inm (et : nat) (m : fmat) : fmat := map (inv_ et) m.
(* math.Log is not replayed: its values at the Cholesky diagonal come from the harness' table;
   the scalar stores float32(math.Log(x)) for the 32 bit types *)
Definition lsentinel : float := 0x1.badbadbadbadp+600%float.
Fixpoint llookup (tb : list (float * float)) (x : float) : float :=
  match tb with [] => lsentinel | (a, r) :: t => if feqb a x then r else llookup t x end.
Definition lg_of (et : nat) (tb : list (float * float)) (x : float) : float :=
  if et32 et then r32 (llookup tb x) else llookup tb x.

Inductive kase :=
(* gaussJordan.Run(a, x, b, Submatrix{msk}, UpperTriangular{ut}) on DenseFloat64 (dense) or DenseReal64 containers *)
| KGJ (dense ut : bool) (n : nat) (msk : list bool) (a x : fmat) (b : fvec) (res : outcome (fmat * fmat * fvec))
(* matrixInverse.Run(m, mode, Submatrix{msk} [, &InSitu{...}]) *)
| KInv (dense : bool) (mode : nat) (n : nat) (msk : list bool) (m : fmat) (res : outcome fmat)
(* backSubstitution.Run(A, b) ; hasb = false for b == nil *)
| KBS (n : nat) (A : fmat) (hasb : bool) (b : fvec) (res : fvec)
(* determinant.Run(a) *)
| KDet (n : nat) (a : fmat) (res : float)
(* determinant.Run(a, PositiveDefinite{true}) *)
| KDetPD (n : nat) (a : fmat) (res : outcome float)
(* Permute / PermuteRows / PermuteColumns / SymmetricPermutation (kind 0..3) *)
| KPerm (kind : nat) (n : nat) (pi : list nat) (m : fmat) (res : outcome fmat)
(* Go's inverse X of A (on the sub-matrix msk): || A X - I ||_inf <= tol, decided in Q *)
| KRes (n : nat) (msk : list bool) (A X : fmat) (tol : Q)
(* Go's solution x of A x = b *)
| KResV (n : nat) (msk : list bool) (A : fmat) (x b : fvec) (tol : Q)
(* round 3, /repo HEAD (after 175f3f7, 8a0efbb): matrixInverse.Run with msknil = no Submatrix option;
   the model is evaluated WITHOUT buffers whatever (dirty) InSitu buffers the harness supplied *)
| KInv2 (dense : bool) (mode : nat) (n : nat) (msknil : bool) (msk : list bool) (m : fmat) (res : outcome fmat)
(* backSubstitution.Run(A, b [, &InSitu{A: dirty buffer}]): the result never depends on the buffer *)
| KBS2 (n : nat) (A : fmat) (hasb : bool) (b : fvec) (res : fvec)
(* typed cases: element type et, inputs as given (rounded by the model for the 32 bit types); the
   harness ran the call after a HISTORY of other calls in the same process (other element types,
   other routines, shared InSitu buffers) — the model is evaluated as if it were the first call *)
| KTGJ (et : nat) (ut : bool) (n : nat) (msk : list bool) (a x : fmat) (b : fvec) (res : outcome (fmat * fmat * fvec))
| KTInv (et : nat) (mode : nat) (n : nat) (msknil : bool) (msk : list bool) (m : fmat) (res : outcome fmat)
| KTBS (et : nat) (n : nat) (A : fmat) (hasb : bool) (b : fvec) (res : fvec)
| KTDet (et : nat) (n : nat) (a : fmat) (res : float)
| KTDetPD (et : nat) (logscale : bool) (n : nat) (a : fmat) (logs : list (float * float)) (res : outcome float)
(* round 6 — one WORKSPACE (R x C storage, dumped whole before and after a call) and the views
   (constructor chain, n, logical content before, logical content after as the library reads it)
   the call's operands / in-situ buffers were: every header is a well-formed n x n view, the
   workspace held the logical input at the cells the view denotes, and AFTER the call the workspace
   is the old one with the logical results written through the views — every other cell unchanged *)
| KVW (R C : nat) (before : fvec) (vs : list (list vop * nat * fmat * fmat)) (after : fvec)
(* gaussJordan.Run on views a, x of two workspaces: the element-level model gj_run_v (SwapRows on the
   storages), bit for bit on both whole workspaces and b *)
| KVGJ (et : nat) (ut : bool) (n : nat) (msk : list bool)
       (Ra Ca : nat) (opsa : list vop) (wa0 : fvec) (Rx Cx : nat) (opsx : list vop) (wx0 : fvec) (b : fvec)
       (res : outcome (fvec * fvec * fvec))
(* matrixInverse.Run(m, [UpperTriangular], [Submatrix], &InSitu{A, Id}) with A, Id views of two workspaces (modes 0, 1):
   m_inverse_v on the whole workspaces *)
| KVInv (et : nat) (ut : bool) (n : nat) (msknil : bool) (msk : list bool)
        (RA CA : nat) (opsA : list vop) (wA0 : fvec) (RI CI : nat) (opsI : list vop) (wI0 : fvec) (m : fmat)
        (res : outcome (fvec * fvec))
(* round 7 — backSubstitution.Run(A, b, &InSitu{X: b [, A: A | dirty buffer]}) on element type et: the result buffer IS
   the right-hand side; single-buffer model backsub_alias_run; res = the returned vector, bafter = b read after the call *)
| KBSal (et : nat) (n : nat) (A : fmat) (aliasA : bool) (b res bafter : fvec).

Definition check (c : kase) : bool :=
  match c with
  | KGJ dense ut n msk a x b res =>
      out_eqb st_eqb (gj_run NumF dense ut n msk (mkSt a x b))
              (match res with
               | Ok (a', x', b') => Ok (mkSt a' x' b')
               | ErrSingular => ErrSingular | PanicSingular => PanicSingular | ErrNotPD => ErrNotPD
               | ErrPerm => ErrPerm | PanicIndex => PanicIndex | OutOfFuel => OutOfFuel end)
  | KInv dense mode n msk m res => out_eqb meq (m_inverse NumF dense (mode_of mode) n msk m) res
  | KBS n A hasb b res => veq (backsub NumF n A (if hasb then Some b else None) (zeros NumF n)) res
  | KDet n a res => feqb (det_naive NumF n a) res
  | KDetPD n a res => out_eqb feqb (det_pd NumF n a) res
  | KPerm kind n pi m res =>
      match kind with
      | 0 => out_eqb meq (match vec_permute NumF n pi (row m 0) with
                          | Ok v => Ok [v] | ErrPerm => ErrPerm | PanicIndex => PanicIndex | _ => OutOfFuel end) res
      | 1 => out_eqb meq (mat_permute_rows n pi m) res
      | 2 => out_eqb meq (mat_permute_cols NumF n pi m) res
      | _ => out_eqb meq (mat_sym_permute NumF n pi m) res
      end
  | KRes n msk A X tol => all_finite_m X && Qle_bool (residual n msk A X) tol
  | KResV n msk A x b tol => forallb finite x && Qle_bool (residual_vec n msk A x b) tol
  | KInv2 dense mode n msknil msk m res =>
      out_eqb meq (m_inverse_v2 NumF dense (mode_of mode) n (if msknil then None else Some msk) m) res
  | KBS2 n A hasb b res => veq (backsub_run_v2 NumF n A (if hasb then Some b else None) None (zeros NumF n)) res
  | KTGJ et ut n msk a x b res =>
      out_eqb st_eqb (gj_run (num_of et) (dense_of et) ut n msk (mkSt (inm et a) (inm et x) (inv_ et b)))
              (match res with
               | Ok (a', x', b') => Ok (mkSt a' x' b')
               | ErrSingular => ErrSingular | PanicSingular => PanicSingular | ErrNotPD => ErrNotPD
               | ErrPerm => ErrPerm | PanicIndex => PanicIndex | OutOfFuel => OutOfFuel end)
  | KTInv et mode n msknil msk m res =>
      out_eqb meq (m_inverse_v2 (num_of et) (dense_of et) (mode_of mode) n (if msknil then None else Some msk) (inm et m)) res
  | KTBS et n A hasb b res =>
      veq (backsub_run_v2 (num_of et) n (inm et A) (if hasb then Some (inv_ et b) else None) None (zeros NumF n)) res
  | KTDet et n a res => feqb (det_naive (num_of et) n (inm et a)) res
  | KTDetPD et logscale n a logs res =>
      out_eqb feqb (det_pd_insitu (num_of et) (lg_of et logs) logscale n None (inm et a)) res
  | KVW R C before vs after =>
      Nat.eqb (length before) (R * C) &&
      forallb (fun v => match v with (ops, n, lin, _) =>
                 let h := view_of R C ops in
                 view_ok (length before) n h && meq (vload NumF n before h) lin end) vs &&
      veq (fold_left (fun s v => match v with (ops, n, _, lout) => vstore NumF n s (view_of R C ops) lout end) vs before)
          after
  | KVGJ et ut n msk Ra Ca opsa wa0 Rx Cx opsx wx0 b res =>
      let ha := view_of Ra Ca opsa in let hx := view_of Rx Cx opsx in
      view_ok (length wa0) n ha && view_ok (length wx0) n hx &&
      out_eqb (fun s t => veq (wa s) (wa t) && veq (wx s) (wx t) && veq (vb s) (vb t))
              (gj_run_v (num_of et) (dense_of et) ut n msk ha hx (mkV wa0 wx0 b))
              (match res with
               | Ok (a', x', b') => Ok (mkV a' x' b')
               | ErrSingular => ErrSingular | PanicSingular => PanicSingular | ErrNotPD => ErrNotPD
               | ErrPerm => ErrPerm | PanicIndex => PanicIndex | OutOfFuel => OutOfFuel end)
  | KVInv et ut n msknil msk RA CA opsA wA0 RI CI opsI wI0 m res =>
      let hA := view_of RA CA opsA in let hI := view_of RI CI opsI in
      view_ok (length wA0) n hA && view_ok (length wI0) n hI &&
      match m_inverse_v (num_of et) (dense_of et) ut n (if msknil then None else Some msk) hA hI wA0 wI0 None (inm et m), res with
      | Ok v, Ok (a', i') => veq (wa v) a' && veq (wx v) i'
      | ErrSingular, ErrSingular => true
      | _, _ => false
      end
  | KBSal et n A aliasA b res bafter =>
      let r := backsub_alias_run (num_of et) n (inm et A) aliasA None (inv_ et b) in
      veq r res && veq r bafter
  end.

Definition mism (cs : list kase) : list nat := mismatches check cs.
