"""C20 — every routine terminates and fails loudly on invalid use."""
import glob, json, os, re
import vlib

TARGETS = ["Base/Corr.vo", "Base/Num.vo", "C20/Model.vo", "C20/Corr.vo", "C20/Spec.vo", "C20/SpecTest.vo",
           "C20/ProofsGuard.vo", "C20/ProofsLoud.vo", "C20/ProofsOk.vo", "C20/ProofsTerm.vo", "C20/ProofsRefuted.vo",
           "C20/ModelSvd.vo", "C20/ProofsSvd.vo", "C20/ProofsView.vo", "C20/Props.vo",
           "C20/ModelRetry.vo", "C20/ProofsRetry.vo", "C20/CorrRetry.vo", "C20/PropsRetry.vo",
           "C20/ModelRecycle.vo", "C20/CorrRecycle.vo", "C20/SpecRecycle.vo", "C20/ProofsRecycle.vo", "C20/PropsRecycle.vo",
           "C20/ModelNewton.vo", "C20/ProofsNewton.vo", "C20/CorrNewton.vo", "C20/PropsNewton.vo"]
PROPS = ["C20/Props.v", "C20/PropsRetry.v", "C20/PropsRecycle.v", "C20/PropsNewton.v"]
PROPOSED = os.path.join(vlib.ROOT, "corpus/C20/known_findings_proposed.json")

PARTIAL = (
    "LOUD FAILURE, proved for ALL shapes/indices about the guard model coq/C20/Model.v (shapes + guards + the index "
    "accesses of every loop, each checked against the length of the storage it touches): for every *guarded* call "
    "(Spec.guarded lists them) with well-formed operands an invalid use ends in a panic/error before anything is written "
    "to the receiver; for valid use the run is Ok, has the expected result shape and no access leaves [0,len) "
    "(valid_ok_all covers the operations listed in Spec.ok_covered; the remaining ones are tied by the exhaustive small-shape "
    "replay only). index() accepts a pair exactly inside the VIEW (index_guard_exact) and At/Swap/SwapRows/SwapColumns with "
    "an out-of-view index are loud and write nothing (out_of_view_access_is_loud, out_of_view_row_swap_is_loud); the tie runs "
    "the out-of-view stream (nested slices / transposes, indices inside the parent's storage) for each of the NINE element-type "
    "instantiations separately. Every call outside Spec.guarded has a `_refuted` lemma with the witness (unchecked Slice, "
    "New*Matrix from slices, interleaved Permute*, sparse Swap, negative indices, 0-sized MdotM, dyadic Alloc-before-check, "
    "SetVariable, ignored options, determinant of non-square input); the matching known findings are matched by site AND "
    "sub-class (empty extent, negative dimension, negative index, option, ...). The model abstracts element VALUES away (C03/C10 "
    "own them); Go int overflow in n*m is not modelled. TERMINATION: for every loop with a coded cap the skeleton "
    "returns within the cap for every body (capped_bound, linesearch_evals_bound: at most MaxEval+2 evaluations); "
    "default caps and the loop headers the skeletons mirror are read from the sources on every run (MaxInt defaults are "
    "reported as unbounded by default). For UNCAPPED loops there is no termination theorem: Coq holds exact non-termination "
    "witnesses (QR 2x2 block loop on [[0,1],[1,0]], msqrt/msqrtInv on [[-3]], gradientDescent on x^2 with step 1, Tip on a view, "
    "the lineSearch constraint loop, the rprop/newton backtracking skeleton) and the remaining ones (Francis outer loop, "
    "symmetric QR, Golub-Kahan SVD, newton backtracking in floats, special-function reductions) are listed as "
    "'termination not provable, not refuted' and only monitored under a deadline on degenerate inputs. For the SVD outer pass "
    "a bookkeeping theorem over the coded skeleton holds for every state and body (an exact zero at any diagonal position of "
    "the active block but the last is not skipped: svd_zero_diagonal_not_skipped); it says nothing about convergence of the "
    "Golub-Kahan iteration, and the skeleton is tied to svd.go by the shape of its loop headers (regex) and by the degenerate "
    "runs, not by a value-level replay. RETRY LOOPS (round 3, ModelRetry/PropsRetry): the back-tracking loop of rprop, newton's "
    "`t1 *= c` loop and lineSearch's constraint halving are modelled coordinatewise WITH their progress measure: for the coded "
    "keying every coordinate that moved the rejected trial point is shrunk (rprop_moved_subset_shrunk, every carrier), and in exact "
    "real arithmetic (0 <= factor < 1) each loop is left after finitely many passes when the trial point is accepted on a box around "
    "the last valid point (rprop_inner_exits, newton_backtracking_exits, ls_constraints_exits); the variants that shrink another vector "
    "than the one that moved the point (gradient_old-keyed rprop shrink, newton scaling x2, lineSearch factor 1) are refuted for every "
    "state; rprop_dense AS WRITTEN is refuted (the keys read the gradient at the rejected trial point). These are exact-arithmetic "
    "statements about the inner loop only; floating-point underflow of the step is covered by the run-time progress predicate and the "
    "probe states, not by a theorem. Tie: source-shape regexes for move key / shrink key / factor, plus a bit-exact float replay of "
    "every logged inner loop that rejected a trial point (CorrRetry.richeck). Hang findings of these loops are matched by the STATE "
    "the run spins in (fuel probe), never by input family. Whether a floating-point convergence loop exits is not decidable by this "
    "technique (DESIGN 6.2). "
    "RECYCLED WORKSPACES (round 6, ModelRecycle/PropsRecycle): the Run entry points of cholesky, determinant, hessenbergReduction, "
    "householderTridiagonalization, householderBidiagonalization, qrAlgorithm (both branches, nested Hessenberg / Householder workspaces), "
    "eigensystem (nested qrAlgorithm, the Eigenvectors/U aliasing), svd (nested bidiagonalisation), matrixInverse (nested cholesky), "
    "backSubstitution and gramSchmidt are modelled on the SHAPES of every workspace buffer (nil checks, allocation, dimension tests, "
    "Set-panics, wiring) plus a provenance bit (result computed from the new input). Proved: backSubstitution, gramSchmidt for EVERY "
    "workspace; qrAlgorithm: every successful run has the right shapes, and is computed from the new input iff H was nil or InitializeH "
    "is set; hessenbergReduction: every call of every HISTORY from the empty workspace is loud or right (and a caller-built workspace is "
    "refuted); cholesky: exact characterisation (too small: index panic, large enough: used and returned as it is) and the shrink "
    "refutation; matrixInverse PD, qrAlgorithm/eigensystem stale input, eigensystem stale vectors / unguarded outputs: refuted with "
    "witness histories (five known findings). NOT proved: history theorems for tridiag / bidiag / svd / qrAlgorithm / eigensystem / "
    "matrixInverse (general) (tied by the replay only); for the cores of tridiag, bidiag, qr, svd, eigen, matinv the model decides the "
    "outcome only when every buffer has exactly the shape a fresh call allocates (otherwise `None`: the recycled-vs-fresh oracle alone "
    "judges); element VALUES are compared with a fresh-workspace call by the harness (tolerance 1e-9), not proved; inputs of the stream are "
    "positive definite / full rank, element types f64, r64 (generic paths) and f32 (cholesky). "
    "NEWTON STEP LOOP + STAGNATION TEST, GAUSS-JORDAN GUARDS (round 7, ModelNewton/PropsNewton): newton's step loop is modelled with its "
    "exits kept apart (Vequals FIRST -> `line search failed`, then constraints, then t1 *= c) inside a model of the outer loop of "
    "newton_root / newton_min (objective, convergence test, NaN test, direction are ORACLES). Proved for every carrier and oracle: without "
    "constraints the step loop is one pass (nstep_unconstrained_one_pass); a step that rounds away is loud at the pass it occurs for every "
    "constraints value and cap (newton_stall_is_loud); consecutive iterates of every run differ (newton_iterates_move); the variant with the "
    "stagnation test on the rejection path only uses up ANY cap on a stalled unconstrained state (newton_late_stall_test_spins_refuted). NOT "
    "proved and FALSE for the code: termination of the outer loop with the default MaxIterations = MaxInt - the stagnation test compares "
    "consecutive iterates only; period-2 cycles between neighbouring floats (F-C20-NEWTON-CYCLE; refuted in Coq for every carrier and oracle: "
    "newton_period2_cycle_spins_refuted, with the binary64 witness x*x - 5e10 newton_cycle_witness_refuted) never return; the finding is "
    "matched by the STATE the run spins in (period-2, classified by the counting hook), so a fixed-point spin of ANY newton entry point is a "
    "VIOLATION. The line-search branch of newton_min (the one RunMin reaches) has had the same stagnation test since the repair of the former "
    "finding F-C20-NEWTON-MIN-LS-STALL (ModelNewton.nstep_ls, line search = oracle; newton_ls_stall_is_loud, newton_ls_iterates_move; the "
    "code before the repair is refuted: newton_ls_no_stall_test_spins_refuted); its witness corpus/C20/newton_min_ls_stall.json is a "
    "regression case that must return `line search failed`. Tie: unconstrained runs with default options on x^2 - a (a ~ 1e10..1e13, 1-D and 2-D, RunRoot / RunCrit / RunMin / the plain "
    "newton_min branch through an add-only hook) under a counting hook (40000 evaluations, no wall clock); iterates and InSitu.T1 are "
    "replayed bit-exactly against nstep_loop (CorrNewton.NS); the direction (matrixInverse, MdotV) is logged data, not modelled; the "
    "constrained step loop is tied by the older regex + constraint-callback cases only. gaussJordan.Run: only the two dimension guards of "
    "each of the four variants are modelled (a square, default submatrix): exact characterisation, the fast path is as strict as the generic "
    "one, `<` guards refuted; non-square a, a short Submatrix option and x with fewer COLUMNS than n are not modelled (index panics, not "
    "exercised); the elimination itself belongs to C05.")

LOOPS = [
    # (site, cap kind, status)
    ("qrAlgorithm.qrAlgorithm Francis outer loop `for p, q := 0, 0; q < n-1;`", "uncapped", "refuted on the implementation (cyclic permutation matrices, NaN/Inf entries: deadline); exact Coq witness only for the 2x2 block loop"),
    ("qrAlgorithm.qrAlgorithm 2x2 block loop `for { ... QRstep }`", "uncapped", "refuted: qr_block_loop_nonterminating_refuted ([[0,1],[1,0]], exact Q model, period 2)"),
    ("qrAlgorithm.splitMatrix (both loops)", "counting loop <= n", "bounded by construction (for i < n-1; p decreasing)"),
    ("qrAlgorithm_symmetric.qrAlgorithmSymmetric outer loop", "uncapped", "termination not provable, not refuted (deadline monitoring)"),
    ("svd.golubKahanSVD outer loop `for p, q := 0, 0; q < n;` + splitMatrix", "uncapped", "termination not provable for finite input; refuted on the implementation for NaN/Inf entries and for some inputs whose bidiagonal form has an exactly zero LAST diagonal entry (F-SVD-ZERODIAG-HANG, deadline). Proved for the pass skeleton (ModelSvd.svd_pass, every state/body): an exact zero at any other position of the active block is not skipped (svd_zero_diagonal_not_skipped), the last position is never scanned (svd_zero_last_diagonal_unhandled_refuted), the bound is tight (svd_scan_bound_is_tight)"),
    ("msqrt.mSqrt `for Mnorm(Y0-Y1) > 1e-8`", "uncapped", "refuted: msqrt_nonterminating_refuted ([[-3]], exact Q model, period 2)"),
    ("msqrtInv.mSqrtInv `for Mnorm(X0-X1) > 1e-8`", "uncapped", "refuted: msqrtinv_nonterminating_refuted ([[-3]])"),
    ("lineSearch.lineSearch outer loop + zoom", "capped: MaxEval (default 20; bfgs passes 100)", "proved: linesearch_evals_bound (<= MaxEval+2 evaluations for every oracle)"),
    ("lineSearch.lineSearch `for !constraints(alpha_j) { alpha_j *= 0.5 }`", "uncapped", "refuted: ls_constraints_nonterminating_refuted (constraint rejecting every alpha)"),
    ("rprop.rprop main loop", "capped: MaxIterations (default MaxInt: unbounded by default)", "proved: capped_bound"),
    ("rprop.rprop inner `for { ... step *= eta[1] }`", "uncapped", "proved for the coded keying (PropsRetry.rprop_moved_subset_shrunk, rprop_inner_exits: exact arithmetic, 0 <= eta[1] < 1, objective valid on a box around x1); refuted when the objective is invalid at x1 itself or eta[1] >= 1 (retry_nonterminating_refuted, F-C20-RPROP-BACKTRACK, matched by probe state); the gradient_old-keyed variant is refuted (rprop_oldkey_backtracking_refuted); keying tied by source regex + bit-exact replay of logged inner loops (CorrRetry.richeck)"),
    ("rprop.rprop_dense_with_gradient inner loop", "uncapped", "refuted AS WRITTEN: rprop_dense_backtracking_nonterminating_refuted (keys read the gradient at the rejected trial point; F-C20-RPROP-DENSE-TRIALGRAD)"),
    ("gradientDescent.gradientDescent `for { ... }`", "uncapped (no MaxIterations option exists)", "refuted: gd_nonterminating_refuted (x^2, step 1, x0 = 1)"),
    ("bfgs.bfgs main loop", "capped: MaxIterations (default MaxInt: unbounded by default)", "proved: capped_bound; inner lineSearch capped at 100"),
    ("adam.adam main loop", "capped: MaxIterations (default MaxInt: unbounded by default)", "proved: capped_bound"),
    ("newton.newton_root / newton_min main loops", "capped: MaxIterations (default MaxInt: unbounded by default)", "proved: capped_bound"),
    ("newton inner `for { x2 = x1 - t1; ...; t1 *= c }`", "uncapped", "proved in exact arithmetic when the constraints accept a box around x1 (PropsRetry.newton_backtracking_exits; the wrong-vector variant is refuted: newton_wrong_vector_refuted); with constraints rejecting every point but x1 it exits only by floating-point underflow x2 == x1; exercised with constraint callbacks that reject every trial point (constraints-x0-only / -x0-point): returns 'line search failed' through the Vequals exit"),
    ("newton outer loop on a stalled / cycling state (unconstrained, default MaxIterations)", "capped by MaxInt only",
     "stall: proved loud (PropsNewton.newton_stall_is_loud, every oracle); late stagnation test refuted (newton_late_stall_test_spins_refuted); "
     "period-2 cycle between neighbouring floats: NOT caught by the code (F-C20-NEWTON-CYCLE, refuted: newton_period2_cycle_spins_refuted, newton_cycle_witness_refuted); RunMin's line-search "
     "branch: stall proved loud as well (PropsNewton.newton_ls_stall_is_loud; the branch without the test is refuted: newton_ls_no_stall_test_spins_refuted; "
     "was F-C20-NEWTON-MIN-LS-STALL, fixed); monitored by a counting hook, hang state classified"),
    ("saga.saga* epoch loop", "capped: MaxIterations (default MaxInt: unbounded by default)", "proved: capped_bound (skeleton only; not exercised by the harness)"),
    ("blahut.blahut `for k < steps`", "capped: steps (mandatory argument)", "proved: capped_bound"),
    ("special.SumSeries / SumLogSeries / EvalContinuedFraction", "capped: max_terms", "proved: capped_bound"),
    ("special bessel CF1_ik/CF2_ik/temme series", "capped: SeriesIterationsMax = 1000000", "proved: capped_bound"),
    ("special digamma.go:119/126, gamma.go:212, polygamma.go:97/216 reductions and series", "uncapped", "termination not provable, not refuted for finite arguments; Polygamma(n, NaN) refuted on the implementation (deadline)"),
    ("matrix Tip() cycle follower", "uncapped", "refuted on views: tip_view_nonterminating_refuted; full matrices: not proved (gcd argument), monitored"),
]

DEFAULT_CAPS = [
    # (file, regex, expected, meaning)
    ("algorithm/lineSearch/lineSearch.go", r"parameters\s*:=\s*Parameters\s*\{\s*1\s*,\s*(\d+)\s*\}", "20", "lineSearch default MaxEval"),
    ("algorithm/bfgs/bfgs.go", r"lineSearch\.Parameters\s*\{\s*1\s*,\s*(\d+)\s*\}", "100", "MaxEval of the line search inside bfgs"),
    ("algorithm/rprop/rprop.go", r"maxIterations\s*:=\s*MaxIterations\s*\{(int\(\^uint\(0\) >> 1\))\}", "int(^uint(0) >> 1)", "rprop default MaxIterations = MaxInt (unbounded by default)"),
    ("algorithm/bfgs/bfgs.go", r"maxIterations\s*:=\s*MaxIterations\s*\{(int\(\^uint\(0\) >> 1\))\}", "int(^uint(0) >> 1)", "bfgs default MaxIterations = MaxInt (unbounded by default)"),
    ("algorithm/adam/adam.go", r"maxIterations\s*:=\s*MaxIterations\s*\{(int\(\^uint\(0\) >> 1\))\}", "int(^uint(0) >> 1)", "adam default MaxIterations = MaxInt (unbounded by default)"),
    ("algorithm/newton/newton.go", r"maxIterations\s*:=\s*MaxIterations\s*\{(int\(\^uint\(0\) >> 1\))\}", "int(^uint(0) >> 1)", "newton default MaxIterations = MaxInt (unbounded by default)"),
    ("algorithm/saga/saga.go", r"maxIterations\s*:=\s*MaxIterations\s*\{(int\(\^uint\(0\) >> 1\))\}", "int(^uint(0) >> 1)", "saga default MaxIterations = MaxInt (unbounded by default)"),
    ("special/constants.go", r"SeriesIterationsMax\s*=\s*(\d+)", "1000000", "special-function series term limit"),
    ("algorithm/qrAlgorithm/qrAlgorithm.go", r"epsilon\s*:=\s*(1e-18)", "1e-18", "qrAlgorithm default epsilon"),
    ("algorithm/msqrt/msqrt.go", r"GetFloat64\(\)\s*>\s*(1e-8)", "1e-8", "msqrt tolerance"),
    # shape of the svd outer pass modelled by coq/C20/ModelSvd.v (svd_pass): scan bounds, guard, tested entry
    ("algorithm/svd/svd.go", r"for\s+k\s*:=\s*(p)\s*;\s*k\s*<\s*n-q-1\s*;\s*k\+\+", "p",
     "svd zero-diagonal scan starts at p (ModelSvd.svd_scan_block p ...)"),
    ("algorithm/svd/svd.go", r"for\s+k\s*:=\s*p\s*;\s*k\s*<\s*([^;]*?)\s*;\s*k\+\+", "n-q-1",
     "svd zero-diagonal scan upper bound (ModelSvd.coded_bound = n - q - 1)"),
    ("algorithm/svd/svd.go", r"p, q = splitMatrix\(B, q\)\s*if\s+(q < n-1)\s*\{", "q < n-1",
     "svd: the scan / step run only while q < n-1 (ModelSvd.svd_pass_with)"),
    ("algorithm/svd/svd.go", r"if\s+(B\.At\(k,k\)\.GetFloat64\(\) == 0\.0)\s*\{\s*zeroRow\(B, U, V, k, inSitu\); t = false",
     "B.At(k,k).GetFloat64() == 0.0", "svd: the scan tests the diagonal entry (k,k) for an exact zero and calls zeroRow(k)"),
    ("algorithm/svd/svd.go", r"for p, q := 0, 0; (q < n); \{", "q < n", "svd outer loop exit test (uncapped)"),
    ("algorithm/rprop/rprop.go", r"for\s+i\s*:=\s*0\s*;\s*(i\s*<\s*maxIterations\.Value)\s*;", "i < maxIterations.Value",
     "rprop main loop is bounded by MaxIterations (capped_bound applies)"),
    # shape of the retry loops modelled by coq/C20/ModelRetry.v: which vector keys the move, which keys the shrink, the factor
    ("algorithm/rprop/rprop.go", r"for \{\s*// update x\s*for i := 0; i < x1\.Dim\(\); i\+\+ \{\s*if (\w+)\[i\] != 0\.0 \{\s*if \1\[i\] > 0\.0 \{\s*x2\.At\(i\)\.SetFloat64\(x1\.Float64At\(i\) - step\[i\]\)\s*\} else \{\s*x2\.At\(i\)\.SetFloat64\(x1\.Float64At\(i\) \+ step\[i\]\)",
     "gradient_new", "rprop inner loop: the MOVE is keyed by gradient_new (ModelRetry.rc_coded: rgm)"),
    ("algorithm/rprop/rprop.go", r"\(constraints\.Value != nil && !constraints\.Value\(x2\)\) \{\s*// if the updated is invalid reduce step size\s*for i := 0; i < x1\.Dim\(\); i\+\+ \{\s*if (\w+\[i\] != 0\.0 \{\s*step\[i\] \*= eta\[1\])\s*\}\s*\}\s*\} else \{\s*// new position is valid, exit loop\s*break",
     "gradient_new[i] != 0.0 {\n            step[i] *= eta[1]", "rprop inner loop: the SHRINK is keyed by gradient_new, factor eta[1] (ModelRetry.rc_coded: rgs = rgm)"),
    ("algorithm/rprop/rprop.go", r"s, err = f\(x2\)\s*if (err != nil \|\| gradient_is_nan\(s\) \|\|)\s*\(constraints", "err != nil || gradient_is_nan(s) ||",
     "rprop inner loop: a trial point is rejected on error, NaN gradient or violated constraints"),
    ("algorithm/rprop/rprop_dense.go", r"if err := evalGradient\(x2, gradient_new\); err != nil \{\s*return x1, err\s*\}\s*if gradient_is_nan\(gradient_new\) \|\|\s*\(constraints\.Value != nil && !constraints\.Value\(x2\)\) \{\s*// if the updated is invalid reduce step size\s*for i := 0; i < x1\.Dim\(\); i\+\+ \{\s*if (\w+\[i\] != 0\.0 \{\s*step\[i\] \*= eta\[1\])",
     "gradient_new[i] != 0.0 {\n            step[i] *= eta[1]", "rprop_dense inner loop: evalGradient overwrites gradient_new, which keys the shrink (ModelRetry.rprop_dense_inner)"),
    ("algorithm/newton/newton.go", r"for \{\s*x2\.VsubV\(x1, t1\)\s*if Vequals\(x1, x2\) \{\s*return x1, fmt\.Errorf\(\"line search failed\"\)\s*\}\s*// check constraints\s*if constraints\.Value == nil \|\| constraints\.Value\(x2\) \{\s*// constraints are satisfied\s*break\s*\}\s*// decrease step size\s*(t1\.VmulS\(t1, c\))",
     "t1.VmulS(t1, c)", "newton_root back-tracking shrinks t1, the vector the trial point is built from (ModelRetry.n_reject)"),
    ("algorithm/newton/newton.go", r"\} else \{\s*for \{\s*x2\.VsubV\(x1, t1\)\s*if Vequals\(x1, x2\) \{\s*return x1, fmt\.Errorf\(\"line search failed\"\)\s*\}\s*// check constraints\s*if constraints\.Value == nil \|\| constraints\.Value\(x2\) \{\s*break\s*\}\s*// decrease step size\s*(t1\.VmulS\(t1, c\))",
     "t1.VmulS(t1, c)", "newton_min back-tracking shrinks t1 (ModelRetry.n_reject)"),
    ("algorithm/newton/newton.go", r"t1\.VmulS\(t1, alpha\)\s*x2\.VsubV\(x1, t1\)\s*if (Vequals\(x1, x2\)) \{\s*return x1, fmt\.Errorf\(\"line search failed\"\)\s*\}\s*\}\s*\} else \{",
     "Vequals(x1, x2)", "newton_min line-search branch: stagnation test right after the step x2 = x1 - alpha t1 (ModelNewton.nstep_ls; was F-C20-NEWTON-MIN-LS-STALL)"),
    ("algorithm/newton/newton.go", r"c\s*:=\s*ConstFloat64\((0\.9)\)", "0.9", "newton back-tracking factor c (0 <= c < 1: newton_backtracking_exits)"),
    ("algorithm/lineSearch/lineSearch.go", r"for !constraints\(alpha_j\) \{\s*(alpha_j \*= 0\.5)\s*\}", "alpha_j *= 0.5",
     "lineSearch constraint loop halves alpha_j (ModelRetry.ls_inner with factor 1/2)"),
]

RID = {"rprop": 1, "bfgs": 2, "adam": 3, "newton-root": 4, "newton-min": 4, "newton-crit": 4, "linesearch": 5, "blahut": 6, "sumseries": 7,
       "sumlogseries": 8, "contfrac": 9}
# bodies that never leave the loop early: the model predicts exactly `cap` iterations
EXACT = {("adam", "linear"), ("rprop", "linear"), ("blahut", "uniform"), ("blahut", "zero-channel"),
         ("sumseries", "constant-terms"), ("sumlogseries", "constant-terms"), ("rprop", "rosenbrock")}
PANIC_IS_LOUD = {"special", "specialnf", "gd"}   # an explicit panic of these routines is a loud failure, which the property allows


def findings():
    """Merged known findings of C20.  corpus/C20/known_findings_proposed.json is this property's own (fresher) file:
    an entry there overrides the merged entry of the same id (its `match` has the shape this plugin understands);
    ids listed under `retired` there are dropped (fixed in /repo: a re-appearance must be a VIOLATION)."""
    fs = list(vlib.known_findings("C20"))
    if os.path.exists(PROPOSED):
        d = json.load(open(PROPOSED))
        retired = {r["id"] for r in d.get("retired", [])}
        mine = {f["id"]: f for f in d.get("findings", [])}
        fs = [mine.pop(f["id"], f) for f in fs if f["id"] not in retired]
        fs += [f for f in mine.values() if f["id"] not in retired]
    return fs


def known_guard(an, fs):
    for f in fs:
        m = f.get("match", {})
        if m.get("stream") != "guard":
            continue
        types = m.get("types") or [m.get("type")]
        site = an["site"].split("[")[0]
        if site in m.get("sites", []) and an["type"] in types:
            subs = (m.get("subs") or {}).get(an["type"])
            if subs is None or an.get("sub", "") in subs:
                return f
    return None


def known_term(r, fs):
    c = r["case"]
    alts = []
    for f in fs:
        m0 = f.get("match", {})
        alts += [(f, m) for m in [m0] + list(m0.get("alt", []))]
    for f, m in alts:
        if m.get("stream") != "term" or c["routine"] not in m.get("routines", []):
            continue
        if m.get("outcome") != r["outcome"]:
            continue
        if c["n"] < m.get("min_n", 0) or c["n"] > m.get("max_n", 10 ** 9):
            continue
        if m.get("objs") and c.get("obj") not in m["objs"]:
            continue
        if m.get("flags") and not set(m["flags"]) <= set(c.get("flags") or []):
            continue
        if [c["family"], c["n"]] in m.get("cases", []):
            return f
        fams = m.get("families")
        pref = m.get("family_prefixes")
        if fams and ("*" in fams or c["family"] in fams):
            return f
        if pref and any(c["family"].startswith(p) for p in pref):
            return f
    return None


def eval_and_report(ctx, shards, cases, per_shard, what):
    res = vlib.eval_shards(shards)
    ctx.oblige(len(res), sum(1 for r in res if r["ok"]))
    bad = []
    for k, r in enumerate(res):
        if r["ok"]:
            continue
        if r["mism"] is None:
            ctx.violation({"obligation": "correspondence shard " + os.path.basename(r["path"]),
                           "coqc_error": r["error"]}, False, "correspondence shard did not evaluate (%s)" % what)
            continue
        for i in r["mism"]:
            bad.append(cases[k * per_shard + i])
    return bad


def guard_stage(ctx, binary, fs, proofs_ok):
    n = 300 if ctx.tier == "quick" else 6000
    rc, out = vlib.run_harness(ctx, binary, n, extra=os.path.join(vlib.ROOT, "corpus/C20/corpus.jsonl"))
    if rc != 0:
        ctx.violation({"obligation": "C20 harness guard stream", "log": out[-3000:]}, False,
                      "harness crashed while replaying the invalid-use stream")
        return
    meta = json.load(open(os.path.join(ctx.dir, "cases.meta.json")))
    vlib.merge_meta(ctx, meta)
    cases = vlib.load_jsonl(os.path.join(ctx.dir, "cases.jsonl"))
    bad = eval_and_report(ctx, sorted(glob.glob(os.path.join(ctx.dir, "cases_*.v")),
                                      key=lambda p: int(re.findall(r"_(\d+)\.v$", p)[0])),
                          cases, meta["per_shard"], "guard stream")
    ctx.log("guard correspondence: %d calls (%d executions), %d mismatching the model" % (
        len(cases), meta["histogram"].get("executions", 0), len(bad)))
    # property-level oracle on the implementation (independent of the Coq model): every anomaly must be a listed finding
    an = json.load(open(os.path.join(ctx.dir, "cases.anomalies.json")))
    unknown = []
    seen = {}
    for a in an["anomalies"]:
        f = known_guard(a, fs)
        if f:
            seen.setdefault(f["id"], []).append("%s:%s x%d" % (a["site"], a["type"], a["count"]))
        else:
            unknown.append(a)
    for fid, lst in sorted(seen.items()):
        ctx.known_finding(fid, "; ".join(lst)[:300])
    ctx.cov.setdefault("extra", {})["guard_anomalies"] = {k: v for k, v in seen.items()}
    for a in unknown[:8]:
        ctx.violation({"call": a["call"], "obs": a["obs"], "site": a["site"], "anomaly": a["type"],
                       "broken": ["correspondence C20.Corr.check"] if bad else []}, True,
                      "%s: %s (outcome kind %d, receiver changed %s) on %s" % (
                          a["site"], a["type"], a["obs"]["kind"], a["obs"]["changed"], json.dumps(a["call"])[:200]))
    if bad and not unknown:
        b = bad[0]
        ctx.violation({"call": b["call"], "obs": b["obs"], "types": b.get("types"),
                       "obligation": "correspondence C20.Corr.check (guard model vs implementation)"}, False,
                      "guard model and implementation disagree on %d call(s) (first: %s -> %s), but the outcome does "
                      "not by itself violate the property" % (len(bad), json.dumps(b["call"])[:160], b["obs"]))


def term_stage(ctx, binary, fs):
    rc, out = vlib.sh([binary, "--seed", str(ctx.seed), "--tier", ctx.tier, "--extra", "term", "--out", ctx.dir],
                      timeout=1500, cwd=vlib.ROOT, env=vlib.go_env())
    tp = os.path.join(ctx.dir, "term.json")
    if rc != 0 or not os.path.exists(tp):
        ctx.violation({"obligation": "C20 harness termination stream", "log": out[-3000:]}, False,
                      "harness crashed while running the iterative routines")
        return
    d = json.load(open(tp))
    res = d["results"]
    hist = d["histogram"]
    special_scan(ctx, set(d.get("special_covered", [])))
    seen = {}
    viol = []
    tcases = []
    for r in res:
        c = r["case"]
        o = r["outcome"]
        if o in ("deadline", "crash", "rtpanic") or (o == "panic" and c["routine"] not in PANIC_IS_LOUD):
            f = known_term(r, fs)
            if f:
                seen.setdefault(f["id"], []).append("%s/%s n=%d" % (c["routine"], c["family"], c["n"]))
            else:
                viol.append(r)
        if c["cap"] >= 0 and c["routine"] in RID and o != "deadline":
            it = r["iters"] if c["routine"] != "linesearch" else 0
            ev = r["evals"] if r["evals"] >= 0 else 0
            exact = (c["routine"], c["family"]) in EXACT and o == "returned"
            tcases.append((c, "TC %d %d %d %d %s" % (RID[c["routine"]], c["cap"], max(it, 0), ev,
                                                     "true" if exact else "false")))
    # rprop inner loop: the progress predicate evaluated on every logged run (retry.go), also on runs that returned
    prog_known, n_prog = [], 0
    for r in res:
        c = r["case"]
        if c["routine"] in ("rprop", "rprop-dense"):
            n_prog += 1
            pg = r.get("prog", "")
            if not pg or (len(c.get("p") or []) > 2 and c["p"][2] >= 1):
                continue
            if c["routine"] == "rprop-dense" and pg.startswith("trial-gradient-zero"):
                prog_known.append("%s/%s step=%s" % (c["routine"], c["family"], c["p"][0]))
            elif r["outcome"] != "deadline":      # a hang is reported through its probe state below
                ctx.violation({"tcase": c, "outcome": r["outcome"], "msg": pg}, True,
                              "%s on %s: a coordinate that moved the rejected trial point was not shrunk (%s)" % (
                                  c["routine"], c["family"], pg[:160]))
    if prog_known:
        seen.setdefault("F-C20-RPROP-DENSE-TRIALGRAD", [])
        seen["F-C20-RPROP-DENSE-TRIALGRAD"] += ["progress-log " + x for x in prog_known[:3]]
    ctx.oblige(1, 1)
    for fid, lst in sorted(seen.items()):
        ctx.known_finding(fid, "%d case(s): %s" % (len(lst), ", ".join(lst[:6])))
    # bit-exact replay of the logged inner loops against ModelRetry (CorrRetry.richeck)
    inner = [(r["case"], t) for r in res for t in r.get("inner", [])]
    if inner:
        per = 150
        ipaths = []
        for k in range(0, len(inner), per):
            ip = os.path.join(ctx.dir, "retry_cases_%d.v" % (k // per))
            with open(ip, "w") as f:
                f.write("From Coq Require Import ZArith List Bool Floats.\nFrom ADV Require Import C20.ModelRetry C20.CorrRetry.\n"
                        "Import ListNotations.\nDefinition cases : list ADV.C20.CorrRetry.ricase := [\n  ")
                f.write(";\n  ".join(t for _, t in inner[k:k + per]))
                f.write("\n].\nDefinition M := Eval vm_compute in (ADV.C20.CorrRetry.rimism cases).\nPrint M.\n")
            ipaths.append(ip)
        ibad = eval_and_report(ctx, ipaths, [c for c, _ in inner], per, "rprop inner-loop traces")
        for c in ibad[:4]:
            ctx.violation({"tcase": c, "obligation": "C20.CorrRetry.richeck (rprop inner loop, bit-exact)"}, True,
                          "%s on %s: the logged inner back-tracking loop differs from ModelRetry (trial points / step vectors)" % (
                              c["routine"], c["family"]))
        ctx.log("rprop inner-loop traces: %d replayed, %d mismatching" % (len(inner), len(ibad)))
    ctx.cov.setdefault("extra", {})["rprop_inner"] = {"runs_with_progress_log": n_prog, "traces_replayed": len(inner),
                                                      "dense_trial_gradient_zero": len(prog_known)}
    # round 7: bit-exact replay of the logged unconstrained newton runs against ModelNewton.nstep_loop (CorrNewton.NS)
    stall = [(r["case"], r["stall"]) for r in res if r.get("stall")]
    srun = [r for r in res if r["case"]["routine"].endswith("-stall")]
    if stall:
        sp = os.path.join(ctx.dir, "newton_cases_0.v")
        with open(sp, "w") as f:
            f.write("From Coq Require Import ZArith List Bool Floats.\nFrom ADV Require Import C20.ModelNewton C20.CorrNewton.\n"
                    "Import ListNotations.\nDefinition cases : list ADV.C20.CorrNewton.ncase := [\n  ")
            f.write(";\n  ".join(t for _, t in stall))
            f.write("\n].\nDefinition M := Eval vm_compute in (ADV.C20.CorrNewton.nmism cases).\nPrint M.\n")
        sbad = eval_and_report(ctx, [sp], [c for c, _ in stall], len(stall) + 1, "newton stall trajectories")
        for c in sbad[:4]:
            ctx.violation({"tcase": c, "obligation": "C20.CorrNewton.ncheck (newton step loop with stagnation test, bit-exact)"}, True,
                          "%s on x^2 - %s: the logged iterates / steps differ from ModelNewton.nstep_loop (a stalled step was accepted, "
                          "or an accepted trial point is not x1 - t1)" % (c["routine"], c["p"]))
        ctx.log("newton stall trajectories: %d replayed, %d mismatching" % (len(stall), len(sbad)))
    n_lsf = sum(1 for r in srun if r["outcome"] == "error" and "line search failed" in r.get("msg", ""))
    ctx.oblige(1, 1 if (n_lsf >= 4 or not srun) else 0)
    if srun and n_lsf < 4:
        ctx.violation({"obligation": "newton stall stream reaches the stagnation exit", "runs": len(srun), "line_search_failed": n_lsf}, False,
                      "only %d of %d unconstrained stall runs ended through the stagnation exit `line search failed` (the stream is vacuous)" % (n_lsf, len(srun)))
    # regression case of the former finding F-C20-NEWTON-MIN-LS-STALL (fixed in /repo): the witness is part of the stall stream and
    # must RETURN through the stagnation exit of the line-search branch; a hang of it is an unexplained deadline (VIOLATION below)
    wit = json.load(open(os.path.join(vlib.ROOT, "corpus/C20/newton_min_ls_stall.json")))
    wc, we = wit["tcase"], wit["expect"]
    wr = [r for r in res if all(r["case"].get(k) == wc[k] for k in ("routine", "family", "n", "p", "x0"))]
    wok = bool(wr) and all(r["outcome"] == we["outcome"] and we["msg_contains"] in r.get("msg", "") for r in wr)
    ctx.oblige(1, 1 if wok else 0)
    if not wok and not any(r["outcome"] == "deadline" for r in wr):
        ctx.violation({"tcase": wc, "obligation": "regression case corpus/C20/newton_min_ls_stall.json returns `line search failed`",
                       "outcome": [[r["outcome"], r.get("msg", "")[:120]] for r in wr]}, bool(wr),
                      "newton.RunMin on x^3/3 - 2e10 x from 1 (former finding F-C20-NEWTON-MIN-LS-STALL) %s" % (
                          "did not end through the stagnation exit `line search failed`" if wr else "is missing from the stall stream"))
    ctx.cov.setdefault("extra", {})["newton_min_ls_stall_regression"] = {"in_stream": len(wr), "returns_line_search_failed": wok}
    ctx.cov.setdefault("extra", {})["newton_stall"] = {"runs": len(srun), "ended_by_line_search_failed": n_lsf,
                                                       "trajectories_replayed": len(stall),
                                                       "spinning": sum(1 for r in srun if r["outcome"] == "deadline")}
    # robustness to timing: an unexplained deadline hit is re-run alone with the long deadline before it counts
    confirmed = []
    for r in viol:
        if r["outcome"] == "deadline" and len(confirmed) < 12:
            rf = os.path.join(ctx.dir, "recheck_in.json")
            json.dump({"tcase": r["case"]}, open(rf, "w"))
            vlib.sh([binary, "--replay", rf, "--out", ctx.dir, "--tier", "recheck"], env=vlib.go_env(), cwd=vlib.ROOT, timeout=200)
            try:
                r2 = json.load(open(os.path.join(ctx.dir, "replay_term.json")))["results"][0]
            except Exception:
                r2 = r
            if r2["outcome"] in ("returned", "error") or (r2["outcome"] == "panic" and r["case"]["routine"] in PANIC_IS_LOUD):
                ctx.notes.append("slow, not hung: %s/%s n=%d returned within the long deadline (%.2fs)" % (
                    r["case"]["routine"], r["case"]["family"], r["case"]["n"], r2.get("secs", 0)))
                continue
        confirmed.append(r)
    viol = confirmed
    for r in viol[:8]:
        c = r["case"]
        what = {"deadline": "did not return within the deadline", "crash": "crashed",
                "rtpanic": "raised a Go runtime error", "panic": "panicked on admissible input"}[r["outcome"]]
        ctx.violation({"tcase": c, "outcome": r["outcome"], "msg": r.get("msg", "")}, True,
                      "%s on %s (n=%d, cap=%d) %s %s" % (c["routine"], c["family"], c["n"], c["cap"], what,
                                                         r.get("msg", "")[:100]))
    # iteration counts against the caps proved in Coq
    path = os.path.join(ctx.dir, "term_cases_0.v")
    with open(path, "w") as f:
        f.write("From Coq Require Import ZArith List Bool.\nFrom ADV Require Import C20.Model C20.Corr.\n"
                "Import ListNotations.\nOpen Scope Z_scope.\nDefinition cases : list ADV.C20.Corr.tcase := [\n  ")
        f.write(";\n  ".join(t for _, t in tcases))
        f.write("\n].\nDefinition M := Eval vm_compute in (ADV.C20.Corr.tmism cases).\nPrint M.\n")
    bad = eval_and_report(ctx, [path], [c for c, _ in tcases], len(tcases) + 1, "iteration counts")
    for c in bad[:4]:
        ctx.violation({"tcase": c}, True, "%s on %s exceeded its cap %d (iteration / evaluation count above the proved bound)" % (
            c["routine"], c["family"], c["cap"]))
    n_hang = sum(1 for r in res if r["outcome"] == "deadline")
    ctx.cov["evaluations"] = ctx.cov.get("evaluations", 0) + len(res)
    ctx.cov["distinct_nontrivial"] = ctx.cov.get("distinct_nontrivial", 0) + sum(
        1 for r in res if r["case"]["family"] not in ("random", "sym-random", "quadratic"))
    ctx.cov["rule"] = ctx.cov.get("rule", "") + " | a termination case is non-trivial iff its input is degenerate (anything but the generic random / well-conditioned quadratic families)"
    ctx.cov.setdefault("input_distribution", {})["termination"] = hist
    ctx.cov.setdefault("extra", {})["termination"] = {
        "deadline_hits": n_hang, "known": {k: len(v) for k, v in seen.items()},
        "cap_checks": len(tcases),
        "max_observed": {rt: max([r["iters"] for r in res if r["case"]["routine"] == rt and r["iters"] >= 0] or [0])
                         for rt in RID}}
    ctx.cov["samples"] = (ctx.cov.get("samples") or []) + [r for r in res if r["outcome"] == "deadline"][:1] + \
        [r for r in res if r["case"]["routine"] == "adam"][:1]
    ctx.log("termination: %d cases, %d deadline hits (%d findings matched), %d unexplained, %d cap checks" % (
        len(res), n_hang, len(seen), len(viol), len(tcases)))


def caps_stage(ctx):
    got = []
    for rel, rx, exp, meaning in DEFAULT_CAPS:
        p = os.path.join(vlib.REPO, rel)
        try:
            m = re.search(rx, open(p).read())
        except OSError:
            m = None
        val = m.group(1) if m else None
        got.append({"file": rel, "meaning": meaning, "value": val})
        ctx.oblige(1, 1 if val == exp else 0)
        if val != exp:
            ctx.violation({"obligation": "default cap read from " + rel, "expected": exp, "found": val}, False,
                          "%s: expected %s, the source now says %s (the loop inventory of C20 is stale)" % (meaning, exp, val))
    ctx.cov.setdefault("extra", {})["default_caps_read_from_source"] = got
    ctx.cov["extra"]["loops"] = [{"site": a, "cap": b, "status": c} for a, b, c in LOOPS]


SPECIAL_EXEMPT = set()   # exported names of special/ deliberately not called by the harness (none)


def special_scan(ctx, covered):
    """every exported function / method of <repo>/special must be a row of the non-finite-argument table of the harness"""
    names = set()
    for p in sorted(glob.glob(os.path.join(vlib.REPO, "special", "*.go"))):
        b = os.path.basename(p)
        if b.endswith("_test.go") or b.startswith("verif_"):
            continue
        for line in open(p):
            m = re.match(r"func ([A-Z]\w*)\(", line)
            if m:
                names.add(m.group(1))
            m = re.match(r"func \(\w+ \*?([A-Z]\w*)\) ([A-Z]\w*)\(", line)
            if m:
                names.add(m.group(1) + "." + m.group(2))
    missing = sorted(n for n in names if n not in covered and n not in SPECIAL_EXEMPT)
    ctx.oblige(1, 0 if missing else 1)
    ctx.cov.setdefault("extra", {})["special_exported"] = {"scanned": sorted(names), "missing": missing}
    if missing:
        ctx.violation({"obligation": "every exported function of special/ is exercised with non-finite arguments",
                       "missing": missing}, False,
                      "exported function(s) of special/ not covered by the C20 non-finite-argument stream: %s" % ", ".join(missing))


def qr_stage(ctx, binary):
    rc, out = vlib.sh([binary, "--seed", str(ctx.seed), "--tier", ctx.tier, "--extra", "qrstep", "--out", ctx.dir],
                      timeout=600, cwd=vlib.ROOT, env=vlib.go_env())
    shards = sorted(glob.glob(os.path.join(ctx.dir, "qr_*.v")))
    if rc != 0 or not shards:
        ctx.violation({"obligation": "C20 harness qrstep stream", "log": out[-2000:]}, False,
                      "harness failed to produce the QRstep traces")
        return
    cases = vlib.load_jsonl(os.path.join(ctx.dir, "qr.jsonl"))
    meta = json.load(open(os.path.join(ctx.dir, "qr.meta.json")))
    bad = eval_and_report(ctx, shards, cases, meta["per_shard"], "QRstep traces")
    ctx.cov["evaluations"] = ctx.cov.get("evaluations", 0) + len(cases)
    ctx.cov.setdefault("input_distribution", {})["qrstep"] = meta.get("histogram", {})
    ctx.log("QRstep bit-exact traces: %d, %d mismatching" % (len(cases), len(bad)))
    for b in bad[:3]:
        ctx.violation({"qrcase": b, "obligation": "C20.Corr.qcheck (bit-exact QRstep / block-loop iteration count)"}, False,
                      "the exact 2x2 QR step model and qrAlgorithm.QRstep / Run disagree on %s" % json.dumps(b)[:200])


def gj_stage(ctx, binary, replay_file=None):
    """round 7: shape guards of gaussJordan.Run on the generic and the DenseFloat64 fast paths (CorrNewton.GJ) + a
    property-level oracle on the implementation (invalid shape accepted / receiver changed on rejection)."""
    name = "replay_gj" if replay_file else "gj"
    for old in glob.glob(os.path.join(ctx.dir, name + "*")):
        os.remove(old)
    if replay_file:
        rc, out = vlib.sh([binary, "--replay", replay_file, "--out", ctx.dir], timeout=600, cwd=vlib.ROOT, env=vlib.go_env())
    else:
        rc, out = vlib.sh([binary, "--seed", str(ctx.seed), "--tier", ctx.tier, "--extra", "gj", "--out", ctx.dir],
                          timeout=600, cwd=vlib.ROOT, env=vlib.go_env())
    mp = os.path.join(ctx.dir, name + ".meta.json")
    if rc != 0 or not os.path.exists(mp):
        ctx.violation({"obligation": "C20 harness gaussJordan guard stream", "log": out[-2000:]}, False,
                      "harness crashed while running the gaussJordan guard stream")
        return 1
    meta = json.load(open(mp))
    cases = vlib.load_jsonl(os.path.join(ctx.dir, name + ".jsonl"))
    shards = sorted(glob.glob(os.path.join(ctx.dir, name + "_*.v")), key=lambda p: int(re.findall(r"_(\d+)\.v$", p)[0]))
    bad = eval_and_report(ctx, shards, cases, meta["per_shard"], "gaussJordan guards")
    an = json.load(open(os.path.join(ctx.dir, name + ".anomalies.json")))["anomalies"] or []
    what = {"invalid-shape-accepted": "accepted an invalid shape (returned nil)",
            "receiver-changed-on-rejection": "changed a, x or b although it rejected the call",
            "runtime-error-instead-of-guard": "ran into a Go runtime error instead of its guard",
            "valid-shape-rejected": "rejected a valid call"}
    for a in sorted(an, key=lambda a: (a["gjcall"]["n"], a["gjcall"]["xr"] + a["gjcall"]["bl"]))[:6]:
        c = a["gjcall"]
        ctx.violation({"gjcall": c, "obs": a["obs"], "anomaly": a["type"],
                       "broken": ["correspondence C20.CorrNewton.ncheck"] if bad else []}, True,
                      "gaussJordan.Run (%s path, UpperTriangular=%s) on a %dx%d, x with %d rows, b with %d entries %s (outcome kind %d)" % (
                          "DenseFloat64 fast" if c["fast"] else "generic", c["tri"], c["n"], c["n"], c["xr"], c["bl"],
                          what.get(a["type"], a["type"]), a["obs"]["kind"]))
    if bad and not an:
        b = bad[0]
        ctx.violation({"gjcall": b["gjcall"], "obs": b["obs"], "obligation": "correspondence C20.CorrNewton.ncheck (gaussJordan guard model)"},
                      False, "gaussJordan guard model and implementation disagree on %d call(s) (first: %s -> kind %d), but every "
                      "invalid shape is still rejected loudly" % (len(bad), json.dumps(b["gjcall"]), b["obs"]["kind"]))
    if not replay_file:
        ctx.cov["evaluations"] = ctx.cov.get("evaluations", 0) + len(cases)
        ctx.cov["distinct_nontrivial"] = ctx.cov.get("distinct_nontrivial", 0) + meta.get("distinct_nontrivial", 0)
        ctx.cov["rule"] = ctx.cov.get("rule", "") + " | " + meta.get("rule", "")
        ctx.cov.setdefault("input_distribution", {})["gaussJordan_guards"] = meta.get("histogram", {})
        ctx.log("gaussJordan guards: %d calls, %d mismatching the model, %d anomalies" % (len(cases), len(bad), len(an)))
    return 1 if (an or bad) else 0


def known_recycle(c, fs):
    """c: one case of the recycle stream carrying an anomaly.  Matched by algorithm AND anomaly type AND option
    combination AND size relation to the earlier calls of the sequence (never by algorithm alone)."""
    st = c["rseq"]["steps"][c["step"]]
    parts = c.get("sub", ",").split(",")
    rel = parts[1]
    foreign = parts[2][len("foreign:"):] if len(parts) > 2 else None
    if foreign is not None:
        # a caller-built buffer: the anomaly is a listed finding only while the workspace MODEL (which carries every
        # dimension test the Run functions perform) agrees with the implementation on this very call - the caller
        # never passes a mismatching case here, so a lost guard is a violation with this call as failing input
        for f in fs:
            m = f.get("match", {})
            if m.get("stream") == "recycle-foreign" and c["anomaly"] in m.get("types", []):
                return f
        return None
    for f in fs:
        m0 = f.get("match", {})
        for m in [m0] + list(m0.get("alt", [])):
            if m.get("stream") != "recycle" or m.get("alg") != c["rseq"]["alg"]:
                continue
            if c["anomaly"] in m.get("types", []) and st["opt"] in m.get("opts", []) and rel in m.get("rels", []):
                return f
    return None


def recycle_stage(ctx, binary, fs, replay_file=None):
    """round 6: call sequences on ONE recycled InSitu / workspace (nested algorithms included), every option pair,
    sizes growing / shrinking / equal; model replay (CorrRecycle.rcheck) + property-level oracle (recycled vs fresh)."""
    n = 150 if ctx.tier == "quick" else 3000
    name = "recycle"
    if replay_file:
        name = "replay_recycle"
        rc, out = vlib.sh([binary, "--replay", replay_file, "--out", ctx.dir, "--tier", ctx.tier], timeout=900,
                          cwd=vlib.ROOT, env=vlib.go_env())
    else:
        rc, out = vlib.sh([binary, "--seed", str(ctx.seed), "--n", str(n), "--tier", ctx.tier, "--out", ctx.dir, "--extra",
                           "recycle:" + os.path.join(vlib.ROOT, "corpus/C20/recycle.jsonl")], timeout=1500,
                          cwd=vlib.ROOT, env=vlib.go_env())
    mp = os.path.join(ctx.dir, name + ".meta.json")
    if rc != 0 or not os.path.exists(mp):
        ctx.violation({"obligation": "C20 harness recycle stream", "log": out[-3000:]}, False,
                      "harness crashed while running the recycled-workspace sequences")
        return 1
    meta = json.load(open(mp))
    cases = vlib.load_jsonl(os.path.join(ctx.dir, name + ".jsonl"))
    shards = sorted(glob.glob(os.path.join(ctx.dir, name + "_*.v")), key=lambda p: int(re.findall(r"_(\d+)\.v$", p)[0]))
    bad = eval_and_report(ctx, shards, cases, meta["per_shard"], "recycled-workspace sequences")
    badkeys = {(json.dumps(b["rseq"], sort_keys=True), b["step"]) for b in bad}
    shrunk = {}
    try:
        for a in json.load(open(os.path.join(ctx.dir, name + ".anomalies.json")))["anomalies"]:
            shrunk[(a["site"].split(":")[1], a["type"], a["sub"])] = a
    except Exception:
        pass
    seen, unknown = {}, {}
    for c in cases:
        if not c.get("anomaly"):
            continue
        key = (c["rseq"]["alg"], c["anomaly"], c["sub"])
        mismatching = (json.dumps(c["rseq"], sort_keys=True), c["step"]) in badkeys
        f = None if mismatching else known_recycle(c, fs)
        if f:
            seen.setdefault(f["id"], {}).setdefault("%s/%s" % (key[0], key[2]), 0)
            seen[f["id"]]["%s/%s" % (key[0], key[2])] += 1
        else:
            unknown.setdefault(key, []).append(c)
    for fid, d in sorted(seen.items()):
        ctx.known_finding(fid, "recycled workspace: %d call(s): %s" % (sum(d.values()), ", ".join(sorted(d))[:240]))
    what = {"wrong-shape": "returned a wrongly sized result with err == nil",
            "stale-values": "returned values that differ from a call on a fresh workspace (stale data) with err == nil",
            "accepted-where-fresh-fails": "accepted an input that a call on a fresh workspace rejects",
            "deadline": "did not return within the deadline"}
    nrep = 0
    for key, lst in sorted(unknown.items()):
        if nrep >= 8:
            break
        nrep += 1
        w = shrunk.get(key)
        c = min(lst, key=lambda x: len(x["rseq"]["steps"]))
        if w and len(w["rseq"]["steps"]) <= len(c["rseq"]["steps"]):
            c = {"rseq": w["rseq"], "step": w["step"], "obs": w["obs"]}
        st = c["rseq"]["steps"][c["step"]]
        ctx.violation({"rseq": c["rseq"], "anomaly": key[1], "sub": key[2], "obs": {k: c["obs"][k] for k in ("kind", "out", "fresh_kind", "fresh_out", "same", "maxdiff")},
                       "broken": ["correspondence C20.CorrRecycle.rcheck"] if bad else []}, True,
                      "%s on a recycled workspace (%s element type, calls %s): the last call (%dx%d, options %d) %s: returned shapes %s, fresh call %s, max |diff| %s" % (
                          key[0], c["rseq"]["type"], [(x["n"], x["m"], x["opt"]) for x in c["rseq"]["steps"]], st["n"], st["m"], st["opt"],
                          what.get(key[1], key[1]), c["obs"]["out"], c["obs"]["fresh_out"], c["obs"]["maxdiff"]))
    if bad and not unknown:
        b = min(bad, key=lambda x: len(x["rseq"]["steps"]))
        ctx.violation({"rseq": b["rseq"], "obs": {k: b["obs"][k] for k in ("kind", "out", "post", "same")},
                       "obligation": "correspondence C20.CorrRecycle.rcheck (workspace model vs implementation)"}, False,
                      "the workspace model and the implementation disagree on %d call(s) (first: %s calls %s -> kind %d, shapes %s), but no call "
                      "returned a stale or wrongly sized result" % (len(bad), b["rseq"]["alg"], [(x["n"], x["m"], x["opt"]) for x in b["rseq"]["steps"]],
                                                                     b["obs"]["kind"], b["obs"]["out"]))
    if not replay_file:
        ctx.cov["evaluations"] = ctx.cov.get("evaluations", 0) + len(cases)
        ctx.cov["distinct_nontrivial"] = ctx.cov.get("distinct_nontrivial", 0) + meta.get("distinct_nontrivial", 0)
        ctx.cov["rule"] = ctx.cov.get("rule", "") + " | " + meta.get("rule", "")
        ctx.cov.setdefault("input_distribution", {})["recycle"] = meta.get("histogram", {})
        ctx.cov.setdefault("extra", {})["recycle"] = {"calls": len(cases), "model_mismatches": len(bad),
                                                      "anomalies_known": {k: sum(v.values()) for k, v in seen.items()},
                                                      "anomalies_unknown": len(unknown)}
        ctx.log("recycled workspaces: %d calls, %d mismatching the model, %d known anomaly classes, %d unexplained" % (
            len(cases), len(bad), len(seen), len(unknown)))
    return 1 if (unknown or bad) else 0


def run(ctx):
    ctx.cov["trusted_base"] = vlib.TRUSTED_BASE_COMMON + [
        "subprocess deadlines (wall clock) for the termination stream; a deadline hit is reported, never waited for",
        "axioms: see 'print_assumptions' (expected: closed under the global context)"]
    ctx.cov["partial"] = PARTIAL
    fs = findings()
    ok, failures = vlib.proof_stage(ctx, TARGETS, PROPS)
    thms = vlib.theorem_names(os.path.join(vlib.COQ, "C20/Props.v"))
    thms2 = vlib.theorem_names(os.path.join(vlib.COQ, "C20/PropsRetry.v"))
    thms3 = vlib.theorem_names(os.path.join(vlib.COQ, "C20/PropsRecycle.v"))
    thms4 = vlib.theorem_names(os.path.join(vlib.COQ, "C20/PropsNewton.v"))
    if ok:
        ctx.cov["print_assumptions"] = vlib.print_assumptions("C20", [("C20.Props", thms), ("C20.PropsRetry", thms2),
                                                                      ("C20.PropsRecycle", thms3), ("C20.PropsNewton", thms4)], ctx.dir)
    for f in failures:
        ctx.violation({"obligation": f["target"], "lemma": f["lemma"], "errors": f["errors"]}, False,
                      "proof obligation no longer checks: %s %s" % (f["target"], f["lemma"] or ""))
    binary, blog = vlib.build_harness("c20")
    if binary is None:
        ctx.violation({"obligation": "build of harness/c20 against the library", "log": blog[-3000:]}, False,
                      "tie lost: the C20 harness no longer builds against the library")
        return
    caps_stage(ctx)
    guard_stage(ctx, binary, fs, ok)
    term_stage(ctx, binary, fs)
    qr_stage(ctx, binary)
    gj_stage(ctx, binary)
    recycle_stage(ctx, binary, fs)


def replay(ctx, path):
    rp = json.load(open(path))
    binary, blog = vlib.build_harness("c20")
    if binary is None:
        print(blog)
        return 2
    fs = findings()
    if "call" in rp:
        rf = os.path.join(ctx.dir, "replay_in.json")
        json.dump({"call": rp["call"]}, open(rf, "w"))
        rc, out = vlib.sh([binary, "--replay", rf, "--out", ctx.dir], env=vlib.go_env(), cwd=vlib.ROOT)
        res = vlib.eval_shards(sorted(glob.glob(os.path.join(ctx.dir, "replay_*.v"))))
        agree = all(r["ok"] for r in res)
        an = json.load(open(os.path.join(ctx.dir, "replay.anomalies.json")))["anomalies"]
        unknown = [a for a in an if not known_guard(a, fs)]
        print("guard model and implementation agree on the replayed call: %s" % agree)
        print("property oracle on the implementation: %s" % (
            "; ".join("%s %s" % (a["site"], a["type"]) for a in an) if an else "holds"))
        return 1 if (unknown or not agree) else 0
    if "gjcall" in rp:
        rf = os.path.join(ctx.dir, "replay_in.json")
        json.dump({"gjcall": rp["gjcall"]}, open(rf, "w"))
        r = gj_stage(ctx, binary, replay_file=rf)
        print("gaussJordan.Run %s: %s" % (json.dumps(rp["gjcall"]), "still fails" if r else "holds"))
        return r
    if "rseq" in rp:
        rf = os.path.join(ctx.dir, "replay_in.json")
        json.dump({"rseq": rp["rseq"]}, open(rf, "w"))
        for old in glob.glob(os.path.join(ctx.dir, "replay_recycle*")):
            os.remove(old)
        ctx.violations_before = len(getattr(ctx, "violations", []))
        r = recycle_stage(ctx, binary, fs, replay_file=rf)
        print("recycled-workspace sequence %s: %s" % (json.dumps(rp["rseq"]), "still fails" if r else "holds (or is a listed finding)"))
        return r
    if "tcase" in rp:
        rf = os.path.join(ctx.dir, "replay_in.json")
        json.dump({"tcase": rp["tcase"]}, open(rf, "w"))
        rc, out = vlib.sh([binary, "--replay", rf, "--out", ctx.dir, "--tier", "recheck"], env=vlib.go_env(), cwd=vlib.ROOT)
        r = json.load(open(os.path.join(ctx.dir, "replay_term.json")))["results"][0]
        print("outcome: %s iters=%s evals=%s %s" % (r["outcome"], r["iters"], r["evals"], r.get("msg", "")))
        badk = r["outcome"] in ("deadline", "crash", "rtpanic") or (
            r["outcome"] == "panic" and r["case"]["routine"] not in PANIC_IS_LOUD)
        capbad = (r["case"]["cap"] >= 0 and r["case"]["routine"] in RID and r["iters"] > r["case"]["cap"] + 1)
        ex = rp.get("expect")      # regression cases of fixed findings say how the run has to end
        exbad = bool(ex) and not (r["outcome"] == ex.get("outcome") and ex.get("msg_contains", "") in r.get("msg", ""))
        return 1 if ((badk and not known_term(r, fs)) or capbad or exbad) else 0
    print("replay names a broken obligation, not an input: %s" % rp.get("obligation"))
    ok, failures = vlib.proof_stage(ctx, TARGETS, PROPS)
    return 0 if ok else 1
