"""C18 — serialisation round-trips every value; malformed input is answered with an error."""
import glob, json, os
import vlib

TARGETS = ["Base/Corr.vo", "C18/Model.vo", "C18/Corr.vo", "C18/TableModel.vo", "C18/TableCorr.vo", "C18/ConfigModel.vo", "C18/ConfigCorr.vo", "C18/ProofsTable.vo", "C18/ProofsConfig.vo", "C18/Spec.vo", "C18/SpecTest.vo", "C18/ProofsBase.vo",
           "C18/ProofsScalar.vo", "C18/ProofsSparse.vo", "C18/ProofsDense.vo", "C18/ProofsSparseMat.vo", "C18/ProofsInst.vo", "C18/ProofsTable2.vo", "C18/ProofsConfig2.vo", "C18/Props.vo",
           "C18/RecvModel.vo", "C18/RecvCorr.vo", "C18/ProofsRecv.vo", "C18/PropsRecv.vo",
           "C18/ConfigModelV.vo", "C18/ConfigCorrV.vo", "C18/ProofsConfigV.vo", "C18/ProofsConfigV2.vo", "C18/RegistryModel.vo", "C18/RegistryCorr.vo", "C18/ProofsRegistry.vo", "C18/PropsV.vo",
           "C18/ProofsMixed.vo", "C18/ProofsRecv7.vo", "C18/PropsR7.vo"]
PROPS = ["C18/Props.v", "C18/PropsRecv.v", "C18/PropsV.v", "C18/PropsR7.v"]
STEMS = ["cases", "tcases", "ccases", "rcases", "vcases", "gcases"]
CORPUS = os.path.join(vlib.ROOT, "corpus/C18/corpus.jsonl")
# findings retired by fix: commits must be removed from BOTH /verif/known_findings.json and this file (b3C18 did so for the six JSON ones)
PROPOSED = os.path.join(vlib.ROOT, "corpus/C18/known_findings_proposed.json")
PARTIAL = ("Theorems are about the hand-written models coq/C18/Model.v (JSON writers/readers of scalars incl. constant scalars, dense and "
           "sparse vectors and matrices, all views; readers as validated at HEAD after da67985 b9c30c8 500dcc2 d37b260 6dfd87a a328708), "
           "TableModel.v (table Export/Import incl. isGzip) and ConfigModel.v (ConfigDistribution export/import of the 20 registered scalar "
           "families, mixtures, transforms, scalar iid). Number formatting/parsing (strconv shortest round trip, ParseFloat/ParseInt), "
           "bytes<->document (encoding/json), bytes<->lines of fields (bufio, strings.Fields, compress/gzip) are trusted hypotheses / "
           "outside the model and mirrored by the harness; memory is not modelled (a Real dense matrix document with huge valid "
           "dimensions allocates its scratch vectors). JSON part: round trips and reader safety (accepted => well-formed; never a "
           "panic) are proved for every value / every document; open: sparse-matrix SLICE writer (F-JSON-SPSLICE, refuted). Table part: "
           "dense-matrix round trip positional for every non-empty wf view, sparse-matrix round trip for every whole wf matrix "
           "(slices: F-TABLE-SPSLICE); table READERS are unvalidated at HEAD (F-TABLE-* refutations); the sparse-vector/matrix "
           "theorems need a token round trip for all values (not the Int instances: F-TABLE-INT). Config part: import(export d) = d "
           "proved by induction over the tree for every nesting of mixture / log transform / translation / top-level iid over the 15 "
           "plain families + categorical (binomial excluded: F-CONFIG-BINOMIAL); log/exp/normalisation are abstract (hypotheses "
           "flog(fexp x)=x, norm lw = lw), so the tie compares categorical/binomial/mixture parameters by count in Coq and with a "
           "tolerance in the oracle. Round 6 (ConfigModelV.v): the vector and matrix registries are modelled for 'vector:scalar id', "
           "'vector:vector id', 'vector:vector iid', 'vector:mixture distribution', 'matrix:vector id', 'matrix:vector iid', 'matrix:mixture "
           "distribution' over 'vector:scalar iid' and the scalar trees (stored VectorId.n / VectorIid.n as Go ints, Dim(), the ScalarType() "
           "calls that index Distributions[0], n % m with its divide-by-zero): import(export d) = d by induction for every nesting the "
           "constructors can build and, conversely, for whatever the importers build from any binomial-free document; the importers "
           "establish the id/iid constructor guards for every document (proved), but not the mixtures' (F-CONFIG-MIXTURE-ARITY, refuted) and "
           "panic on an iid over a zero-dimensional / an id or iid over an empty id distribution (F-CONFIG-IID-PANIC, refuted). The hypothesis "
           "int(float64(n)) = n restricts iid dimensions to |n| <= 2^53. NOT modelled: the other registered names (HMM / constrained / "
           "hierarchical / shape HMM, vector normal / skew normal / t, logistic regression, inverse Wishart, normal inverse Wishart: named "
           "parameter maps, matrix parameters) - the registry obligation only checks that their keys do not collide with modelled ones; "
           "Clone*Pdf (the importers store clones) is assumed to copy. The names behind the constructors are tied by tables regenerated from "
           "the sources with go/ast on every run (registry assignments, ExportConfig Name literals, ImportConfig callees; RegistryCorr.v). "
           "Receivers (round 5, RecvModel.v): every decoder is a function (old receiver state, document/file) -> new state; its result "
           "equals the fresh-receiver reader for EVERY old state for dense/sparse vectors and matrices (JSON and tables), so all theorems "
           "above hold for recycled receivers; for Real scalars only when the document carries a gradient or Hessian "
           "(real_decode_receiver_independent_partial; F-JSON-REAL-RECV refuted). The state of a receiver after a decoder returned an "
           "error is not modelled (Real: Value is already assigned; dense vector Import: already reset). "
           "Round 7 (PropsR7.v): position-wise statements for containers whose elements carry different amounts of derivative "
           "information (the document of element i is the scalar writer's for element i alone; gradient/Hessian of every position "
           "exact, for vectors and every dense-matrix view) and the compact header of a table Import into any receiver state; the "
           "sparse Real containers have no position-wise derivative theorem (their formats carry values only: sv_obs_eq); memory "
           "aliasing between a view receiver and the object it was cut from is not modelled - that the parent is left alone is an "
           "oracle check of the harness (failure kind recv-parent), not a theorem.")

def findings():
    fs = list(vlib.known_findings("C18"))
    have = {f.get("id") for f in fs}
    if os.path.exists(PROPOSED):
        for f in json.load(open(PROPOSED)).get("findings", []):
            if f.get("id") not in have:
                fs.append(f)
    return fs


def classify(fail, fs=None):
    """Return the list of known-finding entries explaining an oracle failure, or [] when it is new."""
    fs = findings() if fs is None else fs
    site, kind = fail.get("Site"), fail.get("Kind")
    labels = [x for x in (fail.get("Cause") or "").split("+") if x]
    tolerated = set()
    for f in fs:
        m = f.get("match", {})
        if site in m.get("sites", []):
            tolerated.update(m.get("causes", []))
    if any(l not in tolerated for l in labels):
        return []
    hit = []
    for f in fs:
        m = f.get("match", {})
        if site not in m.get("sites", []) or kind not in m.get("kinds", []):
            continue
        causes = m.get("causes", [])
        if (not causes and not labels) or (set(causes) & set(labels)):
            if all(r in labels for r in m.get("requires", {}).get(kind, [])):
                hit.append(f)
    return hit


def corr(ctx, binary, n):
    os.environ["C18_REPO"] = vlib.REPO     # the harness reads the struct declarations of the library with go/ast
    rc, out = vlib.run_harness(ctx, binary, n, extra=CORPUS)
    if rc != 0:
        ctx.violation({"obligation": "C18 harness run", "log": out[-3000:]}, False,
                      "harness failed on the implementation (crash while running serialisation cases)")
        return [], []
    bad, ncases, nshards = [], 0, 0
    for stem in STEMS:
        mp = os.path.join(ctx.dir, stem + ".meta.json")
        if not os.path.exists(mp):
            ctx.violation({"obligation": "C18 harness output " + stem}, False, "harness wrote no %s.meta.json" % stem)
            continue
        meta = json.load(open(mp))
        meta["samples"] = meta.get("samples") or []
        vlib.merge_meta(ctx, meta)
        shards = sorted(glob.glob(os.path.join(ctx.dir, stem + "_*.v")), key=lambda p: int(p.rsplit("_", 1)[1][:-2]))[:meta["shards"]]
        res = vlib.eval_shards(shards)
        ctx.oblige(len(res), sum(1 for r in res if r["ok"]))
        cases = vlib.load_jsonl(os.path.join(ctx.dir, stem + ".jsonl"))
        ncases += len(cases)
        nshards += len(res)
        for k, r in enumerate(res):
            if r["ok"]:
                continue
            if r["mism"] is None:
                ctx.violation({"obligation": "correspondence shard " + os.path.basename(r["path"]),
                               "coqc_error": r["error"]}, False, "correspondence shard did not evaluate")
                continue
            for i in r["mism"]:
                bad.append(cases[k * meta["per_shard"] + i])
    orc = vlib.load_jsonl(os.path.join(ctx.dir, "oracle.jsonl"))
    ctx.log("correspondence: %d cases in %d shards (JSON, tables, configurations, recycled receivers incl. same-shape views, mixed-order Real containers, vector/matrix registries), %d mismatching; oracle reported %d failures" % (
        ncases, nshards, len(bad), len(orc)))
    return bad, orc


def hunt(ctx, binary, recipes, n):
    """Oracle-only search on the implementation (independent of the Coq model) + shrinking."""
    rp = os.path.join(ctx.dir, "hunt_in.json")
    json.dump({"Cases": recipes[:50]}, open(rp, "w"))
    rc, out = vlib.sh([binary, "--extra", "hunt", "--replay", rp, "--n", str(n), "--seed", str(ctx.seed),
                       "--out", ctx.dir], timeout=900, env=vlib.go_env())
    hp = os.path.join(ctx.dir, "hunt.jsonl")
    if rc == 0 and os.path.exists(hp):
        return vlib.load_jsonl(hp)
    return []


def describe(f):
    return "%s: %s%s (%s) %s" % (f["Site"], f["Kind"], (" [" + f["Cause"] + "]") if f.get("Cause") else "", f.get("Type", ""),
                                 (f.get("Detail") or "")[:160])


def run(ctx):
    ctx.cov["trusted_base"] = vlib.TRUSTED_BASE_COMMON + [
        "Go strconv/encoding-json number formatting and parsing round-trip (hypothesis fmt_parse of the theorems; exercised by every round-trip case, not proved)",
        "encoding/json bytes<->document layer, mirrored in the harness by decoding into the same struct shapes",
        "table byte layer (bufio.ReadString lines, strings.Fields, compress/gzip) mirrored in the harness tokenizer; strconv.ParseFloat/ParseInt give the token values handed to Coq (rne53 is tied to ParseFloat by TLit cases)",
        "amd64 float->int conversion semantics (CVTTSD2SQ/CVTTSD2SL) in cvt_int",
        "math.Log/Exp and LogAdd behind categorical/binomial/mixture parameters (abstract in the model; compared by count in Coq, by tolerance in the oracle)",
        "read-only reflection on the private fields of the containers to observe headers and stored entries",
        "the struct declarations of the containers are read from the library's sources with go/ast (and cross-checked with reflection on the compiled types); a field the model does not list fails the RvFields obligation",
        "int(x) on float64 (amd64 CVTTSD2SQ, out of range -> MinInt64) in c_f2z for the iid dimensions; Clone*Pdf of the components copies them",
        "the registry tables are read from statistics/{scalar,vector,matrix}Distribution/*.go with go/ast (first-argument string literals of NewConfigDistribution, config.Name assignments, X[key] = new(T) in init) and from the registries of the running program by reflection",
        "axioms: see 'print_assumptions' (expected: closed under the global context, except the non-vacuity Example config_vector_hypotheses_satisfiable, which instantiates the hypotheses over Coq's axiomatic real numbers)"]
    ctx.cov["partial"] = PARTIAL
    ok, failures = vlib.proof_stage(ctx, TARGETS, PROPS)
    thms = vlib.theorem_names(os.path.join(vlib.COQ, "C18/Props.v"))
    rthms = vlib.theorem_names(os.path.join(vlib.COQ, "C18/PropsRecv.v"))
    vthms = vlib.theorem_names(os.path.join(vlib.COQ, "C18/PropsV.v"))
    r7thms = vlib.theorem_names(os.path.join(vlib.COQ, "C18/PropsR7.v"))
    if ok:
        ctx.cov["print_assumptions"] = vlib.print_assumptions("C18", [("C18.Props", thms), ("C18.PropsRecv", rthms), ("C18.PropsV", vthms), ("C18.PropsR7", r7thms)], ctx.dir)
    binary, blog = vlib.build_harness("c18")
    if binary is None:
        ctx.violation({"obligation": "build of harness/c18 against the library", "log": blog[-3000:]}, False,
                      "tie lost: the C18 harness no longer builds against the library")
        return
    n = 2400 if ctx.tier == "quick" else 24000
    bad, orc = corr(ctx, binary, n)
    fs = findings()
    unknown, seen_known = [], {}
    for o in orc:
        hits = classify(o["failure"], fs)
        if hits:
            for h in hits:
                seen_known.setdefault(h["id"], h)
        else:
            unknown.append(o)
    for fid, h in sorted(seen_known.items()):
        ctx.known_finding(fid, h["what"])
    ctx.cov.setdefault("extra", {})["oracle_failures"] = {"total": len(orc), "unknown": len(unknown),
                                                           "known_ids": sorted(seen_known)}
    broken = bool(bad) or not ok
    found = []
    if unknown or broken:
        # shrink what the oracle saw; when a proof or the tie broke, search further
        recipes = [o["recipe"] for o in unknown] + bad
        hn = 0 if (unknown and not broken) else (4000 if ctx.tier == "quick" else 40000)
        for h in hunt(ctx, binary, recipes, hn):
            if not classify(h["failure"], fs):
                found.append(h)
        if unknown and not found:
            found = unknown[:3]
    reported = set()
    for h in found:
        key = (h["failure"]["Site"], h["failure"]["Kind"], h["failure"]["Cause"])
        if key in reported:
            continue
        reported.add(key)
        ctx.violation({"recipe": h["recipe"], "failure": h["failure"],
                       "broken": [f["target"] for f in failures] + (["correspondence C18.Corr.check"] if bad else [])},
                      True, "serialisation property fails on the implementation: " + describe(h["failure"]))
    if broken and not found:
        for f in failures:
            ctx.violation({"obligation": f["target"], "lemma": f["lemma"], "errors": f["errors"]}, False,
                          "proof obligation no longer checks: %s %s" % (f["target"], f["lemma"] or ""))
        if bad:
            ctx.violation({"recipe": bad[0], "obligation": "correspondence C18.Corr.check (model vs implementation)",
                           "mismatching_cases": len(bad)},
                          False, "model and implementation disagree on a serialisation case, but no input violating the property was found")


def replay(ctx, path):
    rp = json.load(open(path))
    binary, blog = vlib.build_harness("c18")
    if binary is None:
        print(blog)
        return 2
    if "recipe" not in rp:
        print("replay names a broken obligation, not an input: %s" % rp.get("obligation"))
        ok, failures = vlib.proof_stage(ctx, TARGETS, PROPS)
        return 0 if ok else 1
    vo, src = os.path.join(vlib.COQ, "C18/Corr.vo"), os.path.join(vlib.COQ, "C18/Corr.v")
    if not os.path.exists(vo) or os.path.getmtime(vo) < os.path.getmtime(src):
        vlib.coq_make(["C18/Corr.vo"])
    rc, out = vlib.sh([binary, "--replay", path, "--out", ctx.dir], env=vlib.go_env())
    if rc != 0:
        print(out)
        return 1
    res = vlib.eval_shards(sorted(glob.glob(os.path.join(ctx.dir, "replay_*.v"))))
    agree = all(r["ok"] for r in res)
    orc = vlib.load_jsonl(os.path.join(ctx.dir, "replay_oracle.jsonl"))
    new = [o for o in orc if not classify(o["failure"])]
    print("model/implementation agree on the replayed case: %s" % agree)
    for o in orc:
        print("property oracle on the implementation: %s%s" % (describe(o["failure"]), "" if o in new else "  [known finding]"))
    if not orc:
        print("property oracle on the implementation: holds")
    return 1 if (new or not agree) else 0
