"""C12 — copies are independent and read-only inputs are left unchanged."""
import glob, json, os
import vlib

TARGETS = ["Base/Corr.vo", "C12/Spec.vo", "C12/ModelS.vo", "C12/ModelM.vo", "C12/ModelH.vo", "C12/ProofsS.vo", "C12/ProofsClone.vo",
           "C12/ProofsSW.vo", "C12/ProofsSWExample.vo", "C12/ProofsM.vo", "C12/ProofsV.vo", "C12/ProofsH.vo", "C12/Corr.vo", "C12/CorrZ.vo",
           "C12/CorrH.vo", "C12/ModelId.vo", "C12/CorrI.vo", "C12/ProofsId.vo",
           "C12/ModelJ.vo", "C12/ProofsJ.vo", "C12/ProofsRefuted3.vo", "C12/CorrJ.vo",
           "C12/ModelConv.vo", "C12/ProofsConv.vo", "C12/ModelIt.vo", "C12/ProofsIt.vo", "C12/CorrA.vo", "C12/Props.vo",
           "C12/ModelArgs.vo", "C12/ProofsArgs.vo", "C12/GenArgs.vo", "C12/ProofsArgsRepo.vo", "C12/CorrO.vo",
           "C12/ModelIS.vo", "C12/ProofsIS.vo", "C12/GenInSitu.vo", "C12/ProofsISRepo.vo", "C12/PropsArgs.vo",
           "C12/ModelCtor.vo", "C12/ProofsCtor.vo", "C12/CorrK.vo", "C12/GenCtor.vo", "C12/ProofsCtorRepo.vo", "C12/PropsCtor.vo"]
PROPS = ["C12/Props.v", "C12/PropsArgs.v", "C12/PropsCtor.v"]
STREAMS = [("scases", "S"), ("jcases", "J"), ("ccases", "C"), ("icases", "I"), ("mcases", "M"), ("vcases", "V"), ("ecases", "E"), ("hcases", "H"),
           ("ocases", "O"), ("kcases", "K")]
PARTIAL = (
    "Proved in Coq, for ALL carriers / register files / heaps / histories, about the models coq/C12/ModelS.v (scalars and dense "
    "vectors of magic scalars as object ids over C01's register file), coq/C12/ModelM.v (dense matrix handles over C10's storage "
    "heap, header kernels regenerated from /repo) and C11's sparse-vector heap model: (1) Clone of a scalar / vector / As-conversion "
    "/ dense matrix (also of a view) / sparse vector never panics, allocates only new objects (footprint disjoint from everything "
    "existing), writes nothing existing and observes like the source (value, order, N, all derivatives and Hessian entries; "
    "dimensions, view shape, elements); (2) every operation of the tables (all 24 scalar instruction forms of C01 incl. the 8 "
    "chain-rule combinators and the composite programs, the dense-vector loops, SetAt/Reset/SetIdentity/Set/MaddM/MsubM/MmulM/"
    "MdotM/Swap/SwapRows/SwapColumns on dense matrices and views) changes nothing outside its receiver's footprint and named "
    "temporaries, hence any history addressed at one copy leaves the other bit-identical, in both directions; for sparse vectors "
    "every valid history without Slice/AppendVector keeps all vectors cell-disjoint and reads like dense copy semantics (C11 "
    "run_noshare); (3) non-receiver operands are unchanged; the sparse iterator's skip() keeps the observation and provably "
    "changes the representation; (4) the InSitu entry idiom (clone-or-Set, then a body that writes only its work matrix) writes "
    "nothing of the caller without InSitu and only the named buffer with it; Slice/T/Append are aliases (stated both ways). "
    "(5, round 2) HISTORIES with a persistent caller-owned InSitu struct: abstract heap model (any content type, a call = an "
    "arbitrary state transformer, the struct = the locations it references, the caller creates inputs / buffers between calls); "
    "under the two frame conditions per call — F1 writes only locations the struct referenced before the call or new ones, F2 "
    "stores no reference to a pre-existing object into the struct (footprint(struct after) within footprint(struct before) + new "
    "allocations) — EVERY history leaves EVERY object the caller holds (inputs of all earlier calls, returned objects that do not "
    "alias the struct) as it was when he obtained it, and the struct never references such an object; F2 is necessary "
    "(retained_reference_breaks_history_refuted = the seeded regression `inSitu.H = a`); the concrete clone-or-Set wrapper over "
    "C10's heap with the buffer threaded through any number of calls writes only the caller's own buffer "
    "(entry_history_writes_only_the_callers_buffer; the retain variant is refuted on a 2-call history). "
    "(6, round 3) SLICE IDENTITIES: coq/C12/ModelId.v puts the identities of the backing arrays (Derivative, Hessian row headers, "
    "every Hessian row) on top of C01's register file (Alloc keeps them when N and Order are unchanged and takes fresh ones otherwise); "
    "for EVERY instruction of C01's table and EVERY history of the scalar/vector world the invariant 'no slice occurs twice, slice "
    "footprints of different registers are disjoint' is kept (every_instruction_keeps_slices_apart, no_history_shares_a_slice), and for "
    "every copying instruction (Set/SET, Min/Max/MIN/MAX, Abs/ABS, LogAdd/LogSub short cuts) the receiver's footprint is disjoint from "
    "every operand's (copying_instruction_receiver_footprint_disjoint); the SET-with-copy() regression is refuted as a model. The model "
    "is tied to the real addresses (reflection, arrays pinned) up to one bijection threaded through each stream-S history, next to a "
    "model-free structural check (no two live scalars share a backing array). (7, round 3) JETS: coq/C12/ModelJ.v models nullScalar() "
    "of the Real types as coded (order guards, full square scan); it equals 'every slot of the jet is zero' for every carrier with "
    "0.0 == 0.0 (nullScalar_is_null_on_jets); a complete iterator loop over a sparse vector of jets keeps every slot of every position "
    "and drops only all-zero jets (sparse_jet_iteration_keeps_observation / _drops_only_null_jets); the triangle-without-diagonal "
    "variant is refuted. Stream J ties null_coded to the real nullScalar (which stored entries survive an iteration) and checks 29 "
    "entry points of the sparse/dense Real64/Real32 containers (typed and generic) on operands of order 2: full slot observation of "
    "read-only operands, copy = source, slice identity, >= 20 mutations. NOT in ModelId: the temporaries of composite instructions "
    "other than Vmean/VdotV/Mtrace (LogAdd/LogSub are generated only on their operand-copying short cuts), MDOTM's tmp vectors and the "
    "sparse containers (covered by stream J's structural check at run time, not by a model). "
    "(8, round 5) AS-CONVERSIONS AT CELL GRANULARITY: coq/C12/ModelConv.v models a container as the list (position, scalar cell) it "
    "owns (dense: one cell per position = a pointer into the backing array; sparse: one per stored position) and every As-conversion as "
    "coded (same concrete type = Clone; to dense = new cell per position; to sparse = new cell per position the source's iterator visits, "
    "whose skip() drops the source's stored nulls); every later mutation is an arbitrary receiver-only transformer. Proved for every "
    "carrier in which null means zero and EVERY history (further conversions, new containers, any number of mutations): a conversion "
    "allocates only new cells, its result reads like the source, the source reads as before, all containers keep pairwise disjoint cell "
    "sets, and a container that is not the receiver of a mutation reads the same for ever (conversion_is_a_deep_copy, "
    "mutation_after_conversion_invisible_through_the_other); the dense->sparse fast path storing AT(i) is refuted as a model. Stream C "
    "ties it: all 1566 (from x to) pairs — 36 typed As<Rep><T>{Vector,Matrix}, the generic As{Dense,Sparse}[Magic]{Vector,Matrix}(t, x) for "
    "every t, the 7 AsSparseConst<T>Vector, each from the 18 source types of the shape; the table is checked against the library source with "
    "go/ast on every run — in rotation (every same-element-type pair on every run), sources with non-zero entries and stored zeros, >= 20 "
    "real mutations of both sides (element writes, Reset, in-place VaddV/VsubV/VmulS/MaddM/.., Set, iterator write loops), every container "
    "observed after every step (value and derivatives), stored positions predicted by the model, storage labels from a reflection walk "
    "pairwise disjoint. (9, round 5) ITERATOR CLONES: coq/C12/ModelIt.v models plain iterators as heap objects and the joint iterator's "
    "Next()/Clone() as coded (two cursor pointers it1, it2 + idx, s1, s2, ok); proved for EVERY history of new iterators / Next / Clone "
    "(clones of clones): after it an iterator is in its old state advanced by exactly the Next() calls addressed at it, a clone starts in "
    "its source's state, Next writes only the iterator's own two cursor objects (iterator_clones_independent, iterator_clone_equals_source); "
    "a joint clone sharing it2 is refuted. Stream I ties it on all 36 container types x the 18 second-operand types in rotation, the three "
    "clone methods of each iterator type, every live iterator observed after every step. NOT in ModelIt: Joint3 iterators and the "
    "underscore variants (not clonable in the library), the SparseConst vector iterators, containers written while iterators live "
    "(C11's stale-iterator model). "
    "(10, round 6) OPTION LISTS: coq/C12/ModelArgs.v models Go's slice semantics (heap of arrays, headers (array, offset, len, cap), "
    "append writes behind len when there is room and reallocates otherwise, reslicing keeps the array, f(x, v...) passes v's header, "
    "f(x, e1..en) a new array) and a function as the list of things its body does with []interface{} variables; an execution is ANY "
    "sequence of the statements, calls nested to any depth. Proved for EVERY program accepted by the static check args_safe (taint of "
    "(function, variable) pairs from the exported entry points through aliases / reslices / spread calls; no append, store or escape "
    "through a tainted variable), EVERY slice header the caller passes (any len, cap, offset) and EVERY execution: no cell of any array "
    "that existed at entry is written, so the caller's len elements and the whole capacity window read as before and a second call with "
    "the same slice sees the same options (accepted_program_writes_no_existing_array / _keeps_callers_option_list); the in-place append "
    "and the in-place filter idioms are rejected and refuted with concrete executions. The program of all 36 functions of "
    "/repo/algorithm with an option-list parameter (27 exported entry points) is REGENERATED from the Go source by go2coq_c12 (go/ast) on "
    "every run and args_safe is evaluated on it by vm_compute (repo_entry_points_keep_callers_option_list); a rejected statement is "
    "reported with its source position. Stream O ties it: every one of the 27 entry points x its option combinations in rotation, the "
    "options in a caller-held slice with 1-3 sentinel cells behind len (every third case with one more option the entry point does not "
    "consume), shallow identity of every cell of the window before/after, result compared bit-exactly with a call with a literal list, "
    "and for plain-value option lists a second call with the SAME slice. NOT in ModelArgs: what the entry points do with the option "
    "VALUES (pointer-valued options such as saga's proximal operator: stream E / known finding), control flow (over-approximated), "
    "option lists stored in struct fields or captured by closures (treated as escape = may write). "
    "(11, round 6) STORES INTO THE InSitu STRUCT: coq/C12/ModelIS.v models the struct as field -> set of referenced object ids and every "
    "assignment inSitu.<field> = <expr> by the class of its right-hand side (new object / nil / something the struct references already / "
    "a parameter, option value or view of one / unknown); proved for every table without parameter- or unknown-class stores and EVERY "
    "sequence of the stores: the struct references afterwards only what it referenced at entry or objects allocated since "
    "(accepted_stores_retain_no_callers_object = frame condition F2 of (5) for the stores as coded); the `inSitu.A = a` regression is "
    "rejected and refuted. The table of all 100 such stores of /repo/algorithm (structs that may be the caller's; a struct built locally "
    "and never re-assigned is skipped) is REGENERATED by go2coq_c12 on every run (locals classified flow-insensitively, views "
    "Slice/T/Row/.. inherit the class of their receiver) and decided by vm_compute; a rejected store is reported with its source "
    "position and stream H supplies the failing call sequence. NOT in ModelIS: references that reach the struct other than by an "
    "assignment to a field of a variable named inSitu (the translator fails the run if a variable of type InSitu has another name), "
    "e.g. through a method of a buffer that keeps its argument (covered by stream H's storage-identity walk at run time); F1 (what the "
    "bodies WRITE) remains runtime evidence. "
    "(12, round 7) FLAG-DEPENDENT COPIES: coq/C12/ModelCtor.v models a body as a straight-line list of d := s.Clone() / d := s / "
    "'rewrite x in place with ANY function of its old contents' over containers = lists of cells, the body chosen by a boolean; proved "
    "for EVERY body accepted by ctor_safe (no in-place write through a variable that may hold a cell that existed at entry; the returned "
    "variable holds only cells allocated by the body), EVERY heap and environment and BOTH values of the flag: no existing cell is written, "
    "the result's cells are new, every object that existed at entry reads as before, a later change confined to old cells is invisible "
    "through the result and one confined to new cells is invisible through every old object (accepted_body_writes_no_existing_cell, "
    "flagged_constructor_is_a_deep_copy); the bodies of generic.NewHmmProbabilityVector / NewHmmTransitionMatrix / NewChmmTransitionMatrix "
    "/ NewHhmmTransitionMatrix (flag isLog) and of bfgs.Run's use of the option-carried Hessian{B0} (flag: B0 singular) are accepted "
    "whatever the transformers compute; 'clone on the !isLog branch only' and 'regularise the caller's B0 on the singular fallback' are "
    "accepted on the commonly taken branch, rejected on the other and refuted there by concrete executions. Stream K ties it: the four "
    "constructors x isLog x 3 argument kinds (24 cases on every run) with the argument observed before / after, the result before / after "
    "the argument is overwritten, the argument before / after the result is overwritten and re-normalised, storage overlap from the "
    "reflection walk, all predicted by running the model (CorrK.kcheck; the clone-on-one-branch model is rejected by a recorded run); "
    "stream E additionally compares isLog=false on p with isLog=true on Log(p) bit-exactly and the result's own Clone*(); every run starts "
    "with ~100 DIRECTED DEGENERATE cases (entry/edge.go: singular, zero, rank-one, NaN, subnormal-pivot, dimension-mismatched matrices as "
    "main inputs AND as bfgs's Hessian{B0}, two option masks each) so that fallback / error paths are reached deterministically. The table of "
    "the 5 constructors of statistics/generic with a container parameter and an isLog flag is REGENERATED from the Go source by go2coq_c12k "
    "(go/ast; every use of a tracked container that is not a Clone, an alias or a whitelisted reader becomes an arbitrary in-place "
    "transformer; anything outside the grammar fails the run) on every run and decided by vm_compute "
    "(repo_flagged_constructors_are_deep_copies); a rejected constructor is reported with its source position. NOT in "
    "ModelCtor: bfgs.Run's body is hand-transcribed; stream K runs the hand-written hmm_ctor_coded, not the regenerated lists; "
    "constructors outside statistics/generic or with another flag name are not found by the translator; control flow inside the transformers, "
    "error returns (the constructor's error path returns no object); iterative entry points (eigensystem, qrAlgorithm, svd, saga, blahut) "
    "are excluded from the degenerate list (no termination guarantee within the deadline). "
    "NOT proved / partial: the entry-point theorems are about the generic wrapper with an abstract body (body_frames / body_ok); that each "
    "concrete algorithm of /repo/algorithm is such a body is NOT proved — for all 29 Run* entry points x 1155 option combinations "
    "and the 42 distribution constructors + 4 flagged generic constructors the harness's before/after snapshot comparison (evaluated in Coq, bit-exact) is the "
    "supporting runtime evidence, not a proof; likewise stream H (all 15 entry points that take an InSitu struct x all ordered "
    "pairs of per-call option settings on an initially empty struct + caller-supplied buffers / the input itself as buffer, 2-4 "
    "calls, fresh inputs per call, every call under a 2 s deadline; 13 estimators through SetData / Estimate / GetEstimate / "
    "EstimateOnData / Clone): the two frame conditions are checked per call on the real execution (F1 by SHA-256 digests of the "
    "bit patterns of the full observable state of everything the caller holds, after every call; F2 by storage identity from a "
    "reflection walk over the struct and the objects), decided by vm_compute (CorrH.hcheck) — runtime evidence that the real bodies "
    "satisfy body_ok on the executed histories, not a proof that they do on all; returned objects that alias the struct / the "
    "estimator are listed in the evidence, not protected; sparse matrices (tmp1/tmp2 sharing of SLICE) are covered only through C11's "
    "whole-matrix model and the runtime stream; slice capacity of Go vectors is outside ModelS (known finding F-C12-APPEND-SLICE); "
    "derivatives of Real matrix elements are covered by ModelS vectors, not ModelM.")


def proposed():
    p = os.path.join(vlib.ROOT, "corpus/C12/known_findings_proposed.json")
    try:
        return json.load(open(p))
    except (OSError, ValueError):
        return []


def known_list():
    ids = set()
    out = []
    for f in vlib.known_findings("C12") + proposed():
        if f["id"] not in ids:
            ids.add(f["id"])
            out.append(f)
    return out


def is_known(finding):
    """finding: {stream, site, failure, case}. Narrow match: stream + entry point + changed object names."""
    for f in known_list():
        m = f.get("match", {})
        if m.get("stream") != finding.get("stream"):
            continue
        if m.get("stream") == "H":
            case = finding.get("case") or {}
            ent = case.get("entry") or ""
            names = [x.split("#")[0] for x in (case.get("changed") or []) + (case.get("retained") or [])]
            if ent in m.get("entries", []) and names and all(n in m.get("objects", []) for n in names):
                return f
        elif m.get("stream") == "E":
            case = finding.get("case") or {}
            changed = case.get("changed") or []
            ent = case.get("entry") or ""
            hit = ent in m.get("entries", []) or any(ent.startswith(x) for x in m.get("entry_prefixes", []))
            if hit and changed and all(c in m.get("objects", []) for c in changed):
                return f
        elif m.get("failure_contains") and m["failure_contains"] in finding.get("failure", ""):
            return f
    return None


def translate_args(ctx):
    """Round 6: regenerate the option-list program (ModelArgs.prog) from vlib.REPO with go2coq_c12.
    Returns (report, text) or None."""
    tool, tlog = vlib.build_tool("go2coq_c12", "go2coq_c12")
    if tool is None:
        ctx.oblige(1, 0)
        ctx.violation({"obligation": "build of go2coq_c12", "log": tlog[-1500:]}, False, "the option-list translator does not build")
        return None
    gen = os.path.join(ctx.dir, "GenArgs.v")
    rep = os.path.join(ctx.dir, "args_report.json")
    geni = os.path.join(ctx.dir, "GenInSitu.v")
    rc, out = vlib.sh([tool, "-repo", vlib.REPO, "-out", gen, "-insitu", geni, "-report", rep], timeout=120, env=vlib.go_env())
    if rc != 0 or not os.path.exists(gen) or not os.path.exists(rep) or not os.path.exists(geni):
        ctx.oblige(1, 0)
        ctx.violation({"obligation": "go2coq_c12 run", "log": out[-1500:]}, False,
                      "tie lost: the option-list translator failed on the library source")
        return None
    report = json.load(open(rep))
    ctx.cov.setdefault("translator", {})["go2coq_c12"] = {
        "files": report["files"], "functions": len(report["functions"]), "roots": report["roots"],
        "statements": report["statements"], "insitu_stores": len(report.get("insitu_stores") or []),
        "unsupported": report["unsupported"]}
    ctx.oblige(1, 1 if report.get("ok") else 0)
    if not report.get("ok"):
        ctx.violation({"obligation": "translation of the option-list uses (go2coq_c12)", "unsupported": report["unsupported"]}, False,
                      "tie lost: a use of an option list is outside the translated grammar: %s" % "; ".join(report["unsupported"] or [])[:600])
    new, newi = open(gen).read(), open(geni).read()
    changed = False
    for name, text in (("GenArgs.v", new), ("GenInSitu.v", newi)):
        committed_path = os.path.join(vlib.COQ, "C12", name)
        committed = open(committed_path).read() if os.path.exists(committed_path) else ""
        if text != committed:
            changed = True
            if os.path.abspath(vlib.REPO) == "/repo":
                open(committed_path, "w").write(text)     # the regenerated program is the model from now on
                ctx.log("%s regenerated from %s differs from the previous one: proofs are re-checked against it" % (name, vlib.REPO))
            else:
                ctx.log("%s regenerated from %s differs from the committed one (redirected run: decided by the shards below)" % (name, vlib.REPO))
    ctx.cov["gen_args_changed"] = changed
    ctx.args_insitu_text = newi
    ctx.args_roots = report["roots"]
    return report, new


def translate_ctor(ctx):
    """Round 7: regenerate the flagged-constructor bodies (ModelCtor statement lists) from vlib.REPO with go2coq_c12k."""
    tool, tlog = vlib.build_tool("go2coq_c12k", "go2coq_c12k")
    if tool is None:
        ctx.oblige(1, 0)
        ctx.violation({"obligation": "build of go2coq_c12k", "log": tlog[-1500:]}, False, "the constructor translator does not build")
        return None
    gen = os.path.join(ctx.dir, "GenCtor.v")
    rep = os.path.join(ctx.dir, "ctor_report.json")
    rc, out = vlib.sh([tool, "-repo", vlib.REPO, "-out", gen, "-report", rep], timeout=120, env=vlib.go_env())
    if rc != 0 or not os.path.exists(gen) or not os.path.exists(rep):
        ctx.oblige(1, 0)
        ctx.violation({"obligation": "go2coq_c12k run", "log": out[-1500:]}, False,
                      "tie lost: the constructor translator failed on the library source")
        return None
    report = json.load(open(rep))
    ctx.cov.setdefault("translator", {})["go2coq_c12k"] = {"functions": report["names"], "unsupported": report["unsupported"]}
    ctx.oblige(1, 1 if report.get("ok") else 0)
    if not report.get("ok"):
        ctx.violation({"obligation": "translation of the flagged constructors (go2coq_c12k)", "unsupported": report["unsupported"]}, False,
                      "tie lost: a constructor of statistics/generic uses its container argument outside the translated grammar "
                      "(or none was found): %s" % "; ".join(report["unsupported"] or [])[:600])
    new = open(gen).read()
    committed_path = os.path.join(vlib.COQ, "C12", "GenCtor.v")
    committed = open(committed_path).read() if os.path.exists(committed_path) else ""
    if new != committed:
        if os.path.abspath(vlib.REPO) == "/repo":
            open(committed_path, "w").write(new)
            ctx.log("GenCtor.v regenerated from %s differs from the previous one: proofs are re-checked against it" % vlib.REPO)
        else:
            ctx.log("GenCtor.v regenerated from %s differs from the committed one (redirected run: decided by the shard below)" % vlib.REPO)
    return report, new


def eval_ctor(ctx, report, new):
    """Decide the regenerated constructor table in Coq (independent of the committed copy); needs ProofsCtor.vo."""
    body = new.split("Import ListNotations.", 1)[1]
    shard = os.path.join(ctx.dir, "ctor_regen_0.v")
    open(shard, "w").write(
        "From Coq Require Import List Arith.\nFrom ADV Require Import C12.ModelCtor C12.ProofsCtor.\nImport ListNotations.\n" + body +
        "\nDefinition M : list nat := Eval vm_compute in (ctor_bad_from 0 (repo_ctors (fun (_ : nat) (xs : list nat) => xs))).\nPrint M.\n")
    res = vlib.eval_shards([shard])[0]
    ctx.oblige(1, 1 if res["ok"] else 0)
    if res["mism"] is None:
        ctx.violation({"obligation": "evaluation of ctor_safe_both on the regenerated constructor table", "coqc_error": res["error"]}, False,
                      "the regenerated constructor table did not evaluate")
        return []
    sites = []
    for i in res["mism"]:
        fn = report["functions"][i] if i < len(report["functions"]) else {}
        sites.append({"function": fn.get("name"), "pos": fn.get("pos"), "stmts": [(s["coq"], s["pos"], s["flag"]) for s in fn.get("stmts", [])]})
    ctx.log("flagged constructors: %d regenerated (%s); ctor_safe_both %s" % (
        len(report["functions"]), ", ".join(report["names"]), "accepted" if not sites else "REJECTS %s" % [(s["function"], s["pos"]) for s in sites]))
    return sites


def eval_args(ctx, report, new):
    """Decide the regenerated program in Coq (independent of the committed copy); needs ProofsArgs.vo."""
    body = new.split("Import ListNotations.", 1)[1]
    shard = os.path.join(ctx.dir, "args_regen_0.v")
    open(shard, "w").write(
        "From Coq Require Import List Arith.\nFrom ADV Require Import C12.ModelArgs C12.ProofsArgs.\nImport ListNotations.\n" + body +
        "\n(* accepted: the frame theorem applies to the regenerated program *)\n"
        "Definition regenerated_frame (H : args_safe repo_prog repo_roots = true) := safe_program_keeps_option_list repo_prog repo_roots H.\n"
        "Definition M : list nat := Eval vm_compute in\n"
        "  (if args_safe repo_prog repo_roots then [] else flat_map (fun p => [fst p; snd p]) (args_unsafe_sites repo_prog repo_roots) ++ [4444]).\n"
        "Print M.\n")
    res = vlib.eval_shards([shard])[0]
    ctx.oblige(1, 1 if res["ok"] else 0)
    if res["mism"] is None:
        ctx.violation({"obligation": "evaluation of args_safe on the regenerated program", "coqc_error": res["error"]}, False,
                      "the regenerated option-list program did not evaluate")
        return []
    sites = []
    flat = res["mism"][:-1]
    for f, i in zip(flat[0::2], flat[1::2]):
        fn = report["functions"][f] if f < len(report["functions"]) else None
        st = fn["stmts"][i] if fn and i < len(fn["stmts"]) else {}
        sites.append({"function": fn["name"] if fn else f, "stmt": st.get("coq"), "pos": st.get("pos"), "text": st.get("text")})
    if res["mism"] and not sites:
        sites.append({"function": "?", "stmt": "roots not tainted", "pos": None, "text": None})
    ctx.log("option lists: %d functions (%d entry points), %d statements regenerated; args_safe %s" % (
        len(report["functions"]), len(report["roots"]), report["statements"], "accepted" if not sites else "REJECTS %s" % sites))
    # stores into InSitu structs
    bodyi = ctx.args_insitu_text.split("Import ListNotations.", 1)[1]
    shardi = os.path.join(ctx.dir, "insitu_regen_0.v")
    open(shardi, "w").write(
        "From Coq Require Import List Arith.\nFrom ADV Require Import C12.ModelIS C12.ProofsIS.\nImport ListNotations.\n" + bodyi +
        "\nDefinition regenerated_f2 (H : stores_ok repo_insitu_stores = true) := accepted_stores_retain_nothing repo_insitu_stores H.\n"
        "Definition M : list nat := Eval vm_compute in (bad_stores_from 0 repo_insitu_stores).\nPrint M.\n")
    resi = vlib.eval_shards([shardi])[0]
    ctx.oblige(1, 1 if resi["ok"] else 0)
    stores = report.get("insitu_stores") or []
    if resi["mism"] is None:
        ctx.violation({"obligation": "evaluation of stores_ok on the regenerated store table", "coqc_error": resi["error"]}, False,
                      "the regenerated table of stores into InSitu structs did not evaluate")
    else:
        for i in resi["mism"]:
            st = stores[i] if i < len(stores) else {}
            sites.append({"function": st.get("func"), "stmt": "store %s" % st.get("class"), "pos": st.get("pos"), "text": st.get("text"),
                          "kind": "insitu"})
        ctx.log("InSitu stores: %d regenerated; stores_ok %s" % (len(stores), "accepted" if not resi["mism"] else "REJECTS %s" % [s for s in sites if s.get("kind") == "insitu"]))
    return sites


def corr(ctx, binary, n):
    os.environ["C12_REPO"] = vlib.REPO          # stream C enumerates the library's As* functions from its source (go/ast)
    rc, out = vlib.run_harness(ctx, binary, n)
    if rc != 0:
        ctx.violation({"obligation": "C12 harness run", "log": out[-3000:]}, False,
                      "harness failed on the implementation (crash while generating cases)")
        return {}
    bad = {}
    total = 0
    for stem, tag in STREAMS:
        mp = os.path.join(ctx.dir, stem + ".meta.json")
        if not os.path.exists(mp):
            ctx.violation({"obligation": "C12 stream " + tag}, False, "harness wrote no cases for stream " + tag)
            continue
        meta = json.load(open(mp))
        vlib.merge_meta(ctx, meta)
        shards = sorted(glob.glob(os.path.join(ctx.dir, stem + "_*.v")), key=lambda p: int(p[:-2].rsplit("_", 1)[1]))
        res = vlib.eval_shards(shards)
        ctx.oblige(len(res), sum(1 for r in res if r["ok"] or r["mism"] is not None and tag in ("E", "H")))
        cases = vlib.load_jsonl(os.path.join(ctx.dir, stem + ".jsonl"))
        total += len(cases)
        b = []
        for k, r in enumerate(res):
            if r["ok"]:
                continue
            if r["mism"] is None:
                ctx.violation({"obligation": "correspondence shard " + os.path.basename(r["path"]), "coqc_error": r["error"]},
                              False, "correspondence shard did not evaluate")
                continue
            for i in r["mism"]:
                b.append(cases[k * meta["per_shard"] + i])
        bad[tag] = b
        ctx.log("stream %s: %d cases in %d shards, %d flagged by Coq" % (tag, len(cases), len(res), len(b)))
        if tag == "O":
            ran = set((meta.get("extra") or {}).get("option_list_entry_points") or [])   # entry points whose driver hands over a held slice
            roots = getattr(ctx, "args_roots", None) or []
            unc = [r for r in roots if r not in ran]
            ctx.oblige(1, 0 if unc else 1)
            if unc:
                ctx.violation({"obligation": "C12 stream O: every exported function of algorithm/* with an option list is exercised",
                               "uncovered": unc}, False,
                              "tie lost: entry points with an option list that the option-list stream does not reach: %s" % ", ".join(unc))
        if tag == "C":
            unc = (meta.get("extra") or {}).get("conversion_functions_uncovered") or []
            ctx.oblige(1, 0 if unc else 1)
            if unc:
                ctx.violation({"obligation": "C12 stream C: every As* conversion function of the library source is in the ownership table",
                               "uncovered": unc}, False,
                              "tie lost: the library has As-conversion entry points the conversion stream does not reach: %s" % ", ".join(unc))
    return bad


def hunt(ctx, binary, cases):
    rp = os.path.join(ctx.dir, "hunt_in.json")
    json.dump({"cases": cases[:60]}, open(rp, "w"))
    n = 60 if ctx.tier == "quick" else 600
    rc, out = vlib.sh([binary, "--extra", "hunt", "--replay", rp, "--n", str(n), "--seed", str(ctx.seed), "--out", ctx.dir],
                      timeout=900, env=vlib.go_env())
    hp = os.path.join(ctx.dir, "hunt.json")
    if rc == 0 and os.path.exists(hp):
        return json.load(open(hp)).get("findings", [])
    ctx.violation({"obligation": "C12 hunt run", "log": out[-2000:]}, False, "hunt did not run")
    return []


def run(ctx):
    ctx.cov["trusted_base"] = vlib.TRUSTED_BASE_COMMON + [
        "models imported from other properties: C01/Model.v (+ C01/Corr.v float instance), C10/Gen.v+Model.v (+ ProofsViews), C11/Model.v (+ proofs)",
        "hook /repo/verif_c12.go (address of a dense matrix's backing array), hooks verif_c10.go / verif_c11*.go (read-only dumps)",
        "entry-point stream: the role table of harness/c12/entry (which objects are inputs, InSitu buffers, documented output arguments)",
        "streams S/J: reflect.Value.Pointer() of the exported slices Derivative / Hessian / Hessian[i] as the identity of a backing array "
        "(zero-capacity slices have none); stream J reads the unexported value map of the sparse Real containers by reflection",
        "streams C/I (round 5): harness/c12/entry/footprint.go's reflection walk as the identity of the storage a container reaches; the keys "
        "of the unexported map `values` as the stored positions of a sparse container; reflect.MethodByName for the iterator methods; the "
        "rule which To-dense conversions walk the source's iterator (AsDense<plain>Vector, AsSparseConst*) is read off the source by hand",
        "option lists (round 6): go2coq_c12 (~450 lines of Go, go/parser + go/ast only) is trusted for the SHAPE of the statement lists "
        "(which uses of an []interface{} variable exist; anything it does not recognise becomes SEscape or fails the run); stream O's "
        "reflect-based shallow key of an option value as its identity",
        "stream H: harness/c12/entry/footprint.go (reflection walk: every pointer target, backing array up to capacity and map header "
        "reachable from an object, library types only) as the definition of storage identity; SHA-256 digests of snapshots"]
    ctx.cov["partial"] = PARTIAL
    tr = translate_args(ctx)
    trk = translate_ctor(ctx)
    ok, failures = vlib.proof_stage(ctx, TARGETS, PROPS)
    arg_sites = eval_args(ctx, *tr) if tr else []
    ctor_sites = eval_ctor(ctx, *trk) if trk else []
    thms = vlib.theorem_names(os.path.join(vlib.COQ, "C12/Props.v"))
    thms_args = vlib.theorem_names(os.path.join(vlib.COQ, "C12/PropsArgs.v"))
    thms_ctor = vlib.theorem_names(os.path.join(vlib.COQ, "C12/PropsCtor.v"))
    if ok:
        ctx.cov["print_assumptions"] = vlib.print_assumptions("C12", [("C12.Props", thms), ("C12.PropsArgs", thms_args),
                                                                      ("C12.PropsCtor", thms_ctor)], ctx.dir)
    binary, blog = vlib.build_harness("c12")
    if binary is None:
        ctx.violation({"obligation": "build of harness/c12 against the library", "log": blog[-3000:]}, False,
                      "tie lost: the C12 harness no longer builds against the library")
        return
    n = 160 if ctx.tier == "quick" else 1600
    bad = corr(ctx, binary, n)
    handed = [c for tag in ("O", "K", "C", "I", "J", "H", "S", "M", "V", "E") for c in bad.get(tag, [])]
    finds = hunt(ctx, binary, handed)
    unknown = []
    for f in finds:
        kf = is_known(f)
        if kf:
            if kf["id"] not in [x for x, _ in ctx.known_hit]:
                ctx.known_finding(kf["id"], kf["what"])
        else:
            unknown.append(f)
    ctx.cov.setdefault("extra", {})["hunt_findings"] = len(finds)
    # E cases flagged by Coq that are not covered by a known finding
    e_unknown = [c for c in bad.get("E", []) if not is_known({"stream": "E", "case": c, "failure": ""})]
    h_unknown = [c for c in bad.get("H", []) if not is_known({"stream": "H", "case": c, "failure": ""})]
    model_bad = [c for tag in ("C", "I", "S", "J", "M", "V", "K") for c in bad.get(tag, [])]
    for f in unknown[:5]:
        ctx.violation({"case": f["case"], "failure": f["failure"], "site": f["site"], "at": f.get("at"),
                       "broken": [x["target"] for x in failures] + (["correspondence C12"] if model_bad else []) +
                                 (["%s: %s %s" % ("ModelIS.stores_ok" if s.get("kind") == "insitu" else "ModelArgs.args_safe", s["function"], s["pos"]) for s in arg_sites]) +
                                 (["ModelCtor.ctor_safe_both: %s %s" % (s["function"], s["pos"]) for s in ctor_sites])}, True,
                      "copy/frame property violated on the implementation (%s): %s" % (f["site"], f["failure"]))
    if not unknown:
        for c in e_unknown[:3]:
            ctx.violation({"case": c, "obligation": "C12.Corr.echeck"}, True,
                          "entry point %s (%s) changed its input object(s) %s" % (c.get("entry"), c.get("opts"), c.get("changed")))
        for c in h_unknown[:3]:
            ctx.violation({"case": c, "obligation": "C12.CorrH.hcheck"}, True,
                          "sequence of %s calls sharing one InSitu struct / estimator (%s): retained reference to %s, later change of %s" % (
                              c.get("entry"), c.get("opts"), c.get("retained"), c.get("changed")))
        for c in bad.get("O", [])[:3]:
            ctx.violation({"case": c, "obligation": "C12.CorrO.ocheck"}, True,
                          "entry point %s (%s): the caller's option list / the behaviour of a call with the same slice changed: %s" % (
                              c.get("entry"), c.get("opts"), c.get("changed")))
        a_sites = [s for s in arg_sites if s.get("kind") != "insitu"]
        i_sites = [s for s in arg_sites if s.get("kind") == "insitu"]
        if a_sites and not bad.get("O"):
            ctx.violation({"obligation": "ModelArgs.args_safe on the program regenerated from the source", "sites": a_sites}, False,
                          "an entry point writes through its option list (%s), but no call that changes the caller's slice was found" % (
                              "; ".join("%s %s: %s" % (s["function"], s["pos"], s["text"]) for s in a_sites[:4])))
        if ctor_sites and not any(c.get("entry", "").startswith("generic.") for c in bad.get("E", []) + bad.get("K", [])):
            ctx.violation({"obligation": "ModelCtor.ctor_safe_both on the constructor table regenerated from the source", "sites": ctor_sites}, False,
                          "a constructor of statistics/generic may write through / return its caller's container on one value of isLog (%s), "
                          "but no call that shows it was found" % "; ".join("%s %s" % (s["function"], s["pos"]) for s in ctor_sites[:4]))
        if i_sites and not bad.get("H"):
            ctx.violation({"obligation": "ModelIS.stores_ok on the store table regenerated from the source", "sites": i_sites}, False,
                          "an entry point stores a reference to a caller's object into the InSitu struct (%s), but no call sequence in "
                          "which an earlier input changes was found" % (
                              "; ".join("%s %s: %s" % (s["function"], s["pos"], s["text"]) for s in i_sites[:4])))
        for f in failures:
            ctx.violation({"obligation": f["target"], "lemma": f["lemma"], "errors": f["errors"]}, False,
                          "proof obligation no longer checks: %s %s" % (f["target"], f["lemma"] or ""))
        if model_bad:
            ctx.violation({"case": model_bad[0], "obligation": "correspondence C12 (model vs implementation)"}, False,
                          "model and implementation disagree on a history, but no history violating the property was found")
    elif failures or model_bad:
        ctx.notes.append("also broken: %s; %d model/implementation mismatches" % ([f["target"] for f in failures], len(model_bad)))


def replay(ctx, path):
    rp = json.load(open(path))
    binary, blog = vlib.build_harness("c12")
    if binary is None:
        print(blog); return 2
    if "case" not in rp:
        print("replay names a broken obligation, not an input: %s" % rp.get("obligation"))
        ok, failures = vlib.proof_stage(ctx, TARGETS, PROPS)
        return 0 if ok else 1
    rc, out = vlib.sh([binary, "--replay", path, "--out", ctx.dir], env=vlib.go_env())
    print(out.strip()[-600:])
    res = vlib.eval_shards(sorted(glob.glob(os.path.join(ctx.dir, "replay_*_*.v"))))
    agree = all(r["ok"] for r in res)
    if res:
        print("model/implementation agree on the replayed history: %s" % agree)
    return 1 if (rc != 0 or not agree) else 0
