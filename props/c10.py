"""C10 — views and transposes address exactly the elements they denote."""
import glob, json, os, shutil
import vlib

TARGETS = ["Base/Corr.vo", "C10/Gen.vo", "C10/GenAcc.vo", "C10/GenLoop.vo", "C10/ProofsLoop.vo", "C10/Model.vo", "C10/ModelSparse.vo", "C10/Corr.vo", "C10/Spec.vo",
           "C10/ProofsIndex.vo", "C10/ProofsViews.vo", "C10/ProofsIter.vo", "C10/ProofsIterSkip.vo", "C10/ProofsOps.vo",
           "C10/ProofsTip.vo", "C10/ProofsTipGen.vo", "C10/ProofsOpsView.vo", "C10/ProofsSparse.vo", "C10/ProofsSparseT.vo",
           "C10/ProofsAcc.vo", "C10/ProofsPermView.vo", "C10/ProofsTipAll.vo", "C10/ProofsTipView.vo",
           "C10/ModelBin.vo", "C10/CorrBin.vo", "C10/ProofsBinView.vo", "C10/ProofsJoint.vo",
           "C10/ModelMap.vo", "C10/CorrMap.vo", "C10/ProofsMap.vo", "C10/ProofsEqViews.vo", "C10/Props.vo"]
PROPS = ["C10/Props.v"]
PARTIAL = (
    "The integer kernels (index, ij, SLICE/Slice/ConstSlice, T/MagicT, Dims, dense iterator Ok/next/Index) are re-translated "
    "from all 18 matrix instantiations of the repository on every run (go2coq_c10 -> Gen.v), and so is the copy-vs-reference "
    "table of the 11 vector-returning dense accessors per value of the transposed flag (go2coq_c10/acc.go -> GenAcc.v: "
    "values[a:b] = AliasesStorage, fresh vector filled element-wise = Copies, or SharesCells for the pointer elements of "
    "Real32/Real64 without Clone()); round 6 adds the TRAVERSAL table of the 27 cell-by-cell whole-matrix methods of all nine "
    "dense instantiations (go2coq_c10/loops.go -> GenLoop.v: Reset, SetIdentity, Set, Map, MapSet, Reduce, IsSymmetric, "
    "Equals/EQUALS, M{add,sub,mul,div}{M,S} with their upper-case twins, Outer/OUTER are `for i<rows {for j<cols {` over the "
    "receiver's Dims() reaching matrices only through At/AT/ConstAt/index(i,j), never raw offsets into the backing array); the "
    "theorems are re-checked against the regenerated text. Everything that touches "
    "storage (element access, Reset/Set/SetIdentity, element-wise ops, MdotM/MdotV/VdotM, Row/Col/Diag, ConstRow/ConstCol, "
    "Swap*/Permute*, Tip, AsVector/AsMatrix, Clone, MarshalJSON, String/Table/Export, iterators with their zero-skipping "
    "loop; sparse: the same header over one sorted (index,value) list, T() re-layout) is the hand-written model of "
    "Model.v/ModelSparse.v, tied by exact replay. Go int is Z (header fields are bounded by slice lengths, no overflow); "
    "element values are Z (small integers, exact in every element type). Tip is proved for EVERY shape and storage "
    "content (induction over the cycles with the visited set and the skip test as coded; the model's fuel mn+1 is never "
    "exhausted) on matrices that own their storage, and on transposed views (flag cleared); on NON-transposed proper "
    "windows the code is wrong (proposed finding F-TIP-VIEW, refuted by witnesses). Operation-on-view = operation-on-"
    "deep-copy is a theorem for every read-only/arithmetic operation of the model, for the whole-matrix writes, and "
    "for the in-place permuting writes (Swap, SwapRows/SwapColumns, PermuteRows/PermuteColumns/SymmetricPermutation, MdotM "
    "with the view as receiver in both schedules): same outcome, view = copy's elements, frame, heap = copy written back; "
    "the product needs non-empty shapes (storageLocation of an empty copy panics). Round 5: receiver AND operands views of "
    "ONE storage (ModelBin.v, second replay stream): element-wise operations and MdotM in both schedules are proved to be the "
    "fill of the receiver with the closed form of the elements read before the call whenever each operand is the receiver "
    "itself or unreachable by writes through the receiver (other storage, or other cells of the same storage), hence equal "
    "to the call on independent deep copies, with frame; the excluded product case (left factor = receiver, right factor a "
    "sibling window: wrong schedule) is the proposed finding F-MDOTM-SIBLING (= C08's F-MDOTM-T); shifted/transposed OVERLAPS "
    "of the receiver with an operand are receiver aliasing (C08) and only replayed. The dense joint iterator is modelled "
    "step by step and proved to depend on shapes and elements only. "
    "Round 6 (ModelMap.v, third replay stream): Map / MapSet / the WRITING iterator (Iterator()+Get()) with ANY callback that "
    "sees the element it is handed and its own closure state (a Gallina function St -> Z -> St * Z, St any type), Reduce with "
    "any callback, MaddS/MsubS/MmulS/MdivS with the view as receiver (operand = the view or a matrix elsewhere), Outer, Equals in "
    "both positions and ConstDiag are proved, on every well-formed view and every composition of Slice/T, to give the same "
    "final closure state / result / panic as on an independent deep copy, to leave the view with the copy's elements, with "
    "frame and 'heap = copy written back'; Reduce is proved to be the left fold over the row-major elements and Map/MapSet to be "
    "the sequential run of the callback over the row-major elements (map_closed_form: final state, produced values in place, frame). "
    "Round 7: Equals/EQUALS with BOTH sides views of ONE storage (shifted windows, a square window against its own T(), a window "
    "against itself) is replayed in the second stream (BEquals = ModelMap.mEquals on two headers over one heap; constant / periodic / "
    "symmetric parents so both outcomes occur) and proved in closed form on every pair of well-formed views: dimension panic or "
    "'every position holds equal elements' (equals_closed_form, equals_true_iff_all_elements_equal -- no hypothesis on storage, offsets "
    "or flags), hence equal to the call on two independent deep copies in both argument orders "
    "(equals_on_two_views_equals_on_deep_copies); the hunt sweeps every pair of equally shaped (transposed) windows of a 3x3 parent "
    "in all eight dense element types, both spellings. View programs of the dense streams and of the hunt now carry DISCARDED "
    "constructor calls (T(), Slice(whole), T().T() on the object a step starts from, e.g. parent.T() dropped, then Slice, then T()): "
    "in the model the constructors are pure functions of the header, so the replay and the oracle decide that no state is cached in "
    "a header and carried into later views by `m := *matrix`; this purity is tied by replay/oracle only (there is no Go-side "
    "theorem; a new struct field is flagged by the translator as a kernel outside the grammar). The JSON observable on MALFORMED "
    "dense views that take MarshalJSON's raw-storage branch (rows*cols != len(values): UnmarshalJSON rejects the text since d37b260) "
    "is now the marshalled text decoded field by field (the model's mJSON is MarshalJSON, not the round trip). "
    "Still not modelled / not proved: callbacks that RE-ENTER the matrix (read or write other elements of the receiver or its "
    "parent while being called); a closed form of the writing iterator (it is proved equal to the run on a deep copy only); "
    "matrix-scalar operations whose RECEIVER is elsewhere and whose operand is the view (replayed only); MdivM "
    "(traversal table only; MdivS is replayed with the truncated quotient the harness observes); Jacobian/Hessian; element types' rounding (values are small "
    "integers). The upper-case concrete twins (MADDS, OUTER, EQUALS ...) are called by reflection in the replay and the hunt and "
    "pinned by the traversal table; the body statements inside the loops are hand model + replay. "
    "Sparse T() is proved for whole matrices of every shape and content; sparse views are covered by witness refutations. "
    "Known findings (F-ASVEC, F-SPITER, F-SPT, F-SPT-REF, F-IJ-T, proposed F-TIP-VIEW, F-MDOTM-SIBLING) are excluded from the universally "
    "quantified statements and refuted by witness lemmas instead.")


def known_list():
    kfs = list(vlib.known_findings("C10"))
    p = os.path.join(vlib.ROOT, "corpus/C10/known_findings_proposed.json")
    have = {k.get("id") for k in kfs}
    if os.path.exists(p):
        for k in json.load(open(p)).get("findings", []):
            if k.get("id") not in have:
                kfs.append(k)
    return kfs


def match_known(f, kfs):
    fl, site = f.get("flags", {}), f.get("site", "")
    for k in kfs:
        m = k.get("match", {})
        if not m:
            continue
        if "sites" in m and site not in m["sites"]:
            continue
        if "kind" in m and not site.startswith(m["kind"] + ":"):
            continue
        if any(not fl.get(x) for x in m.get("needs_all", [])):
            continue
        if m.get("needs_any") and not any(fl.get(x) for x in m["needs_any"]):
            continue
        if any(fl.get(x) for x in m.get("needs_none", [])):
            continue
        if m.get("what_contains") and m["what_contains"] not in f.get("what", ""):
            continue
        return k
    return None


# ---------------------------------------------------------------- translator (T2)

def private_tree(ctx, gen_text, acc_text=None, loop_text=None):
    """REPO is redirected and its kernels differ from the committed Gen.v: compile Base + C10 with the
    regenerated Gen.v in a private tree under ctx.dir (the shared coq/ tree is left alone)."""
    root = os.path.join(ctx.dir, "coq")
    for d in ("Base", "C10"):
        os.makedirs(os.path.join(root, d), exist_ok=True)
        for f in glob.glob(os.path.join(vlib.ROOT, "coq", d, "*.v")):
            shutil.copy(f, os.path.join(root, d, os.path.basename(f)))
    open(os.path.join(root, "C10", "Gen.v"), "w").write(gen_text)
    if acc_text is not None:
        open(os.path.join(root, "C10", "GenAcc.v"), "w").write(acc_text)
    if loop_text is not None:
        open(os.path.join(root, "C10", "GenLoop.v"), "w").write(loop_text)
    return root


def translate(ctx):
    """Regenerate Gen.v from vlib.REPO.  Returns (ok, failures)."""
    failures = []
    tool, tlog = vlib.build_tool("go2coq_c10", "go2coq_c10")
    if tool is None:
        ctx.oblige(1, 0)
        return False, [{"target": "go2coq_c10 build", "lemma": None, "errors": [tlog[-1500:]]}]
    gen = os.path.join(ctx.dir, "Gen.v")
    rep = os.path.join(ctx.dir, "gen_report.json")
    acc = os.path.join(ctx.dir, "GenAcc.v")
    loops = os.path.join(ctx.dir, "GenLoop.v")
    rc, out = vlib.sh([tool, "-repo", vlib.REPO, "-out", gen, "-acc", acc, "-loops", loops, "-report", rep], timeout=300, env=vlib.go_env())
    if rc != 0 or not os.path.exists(gen) or not os.path.exists(rep) or not os.path.exists(acc) or not os.path.exists(loops):
        ctx.oblige(1, 0)
        return False, [{"target": "go2coq_c10 run", "lemma": None, "errors": [out[-1500:]]}]
    report = json.load(open(rep))
    ctx.cov["translator"] = report
    ok = bool(report.get("ok"))
    ctx.oblige(1, 1 if ok else 0)
    if not ok:
        failures.append({"target": "translation of the index kernels / accessor table / traversal table of the cell-by-cell "
                                   "methods (an instantiation differs from its family or a construct is outside the translated grammar)", "lemma": None,
                         "errors": [json.dumps({k: v for k, v in report.items() if k != "ok"})[:1500]]})
    new, new_acc, new_loops = open(gen).read(), open(acc).read(), open(loops).read()
    committed_path = os.path.join(vlib.ROOT, "coq", "C10", "Gen.v")
    acc_path = os.path.join(vlib.ROOT, "coq", "C10", "GenAcc.v")
    committed = open(committed_path).read() if os.path.exists(committed_path) else ""
    committed_acc = open(acc_path).read() if os.path.exists(acc_path) else ""
    loops_path = os.path.join(vlib.ROOT, "coq", "C10", "GenLoop.v")
    committed_loops = open(loops_path).read() if os.path.exists(loops_path) else ""
    ctx.cov["gen_loops_changed"] = new_loops != committed_loops
    ctx.cov["gen_changed"] = new != committed
    ctx.cov["gen_acc_changed"] = new_acc != committed_acc
    if new != committed or new_acc != committed_acc or new_loops != committed_loops:
        if os.path.abspath(vlib.REPO) == "/repo":
            # the regenerated files are the model from now on (a file is only rewritten when it differs:
            # Gen.v is imported by C08 C09 C12, its timestamp must not move needlessly)
            if new != committed:
                open(committed_path, "w").write(new)
            if new_acc != committed_acc:
                open(acc_path, "w").write(new_acc)
            if new_loops != committed_loops:
                open(loops_path, "w").write(new_loops)
            ctx.log("Gen.v / GenAcc.v / GenLoop.v regenerated from %s differ from the previous ones: proofs are re-checked against them" % vlib.REPO)
        else:
            vlib.COQ = private_tree(ctx, new, new_acc, new_loops)   # redirected run: never touch the shared tree
            ctx.log("Gen.v / GenAcc.v / GenLoop.v regenerated from %s differ: proofs re-checked in private tree %s" % (vlib.REPO, vlib.COQ))
    return ok, failures


# ---------------------------------------------------------------- correspondence and hunt

def corr(ctx, binary, n, corpus):
    rc, out = vlib.run_harness(ctx, binary, n, extra=corpus)
    if rc != 0:
        ctx.violation({"obligation": "C10 harness run", "log": out[-3000:]}, False,
                      "harness failed on the implementation (crash while generating view programs)")
        return []
    meta = json.load(open(os.path.join(ctx.dir, "cases.meta.json")))
    vlib.merge_meta(ctx, meta)
    shards = sorted(glob.glob(os.path.join(ctx.dir, "cases_*.v")), key=lambda p: int(p.rsplit("_", 1)[1][:-2]))
    res = vlib.eval_shards(shards)
    ctx.oblige(len(res), sum(1 for r in res if r["ok"]))
    cases = vlib.load_jsonl(os.path.join(ctx.dir, "cases.jsonl"))
    bad = []
    for k, r in enumerate(res):
        if r["ok"]:
            continue
        if r["mism"] is None:
            ctx.violation({"obligation": "correspondence shard " + os.path.basename(r["path"]),
                           "coqc_error": r["error"]}, False, "correspondence shard did not evaluate")
            continue
        for i in r["mism"]:
            bad.append(cases[k * meta["per_shard"] + i])
    ctx.log("correspondence: %d cases in %d shards, %d mismatching (%.0fs coqc)" % (
        len(cases), len(res), len(bad), sum(r["secs"] for r in res)))
    # second stream: binary operations on several views of one parent / joint iterator (CorrBin.mismB)
    mp = os.path.join(ctx.dir, "bcases.meta.json")
    if not os.path.exists(mp):
        ctx.violation({"obligation": "C10 harness run (binary-operation stream)"}, False,
                      "the harness wrote no binary-operation cases")
        return bad
    metab = json.load(open(mp))
    vlib.merge_meta(ctx, metab)
    shardsb = sorted(glob.glob(os.path.join(ctx.dir, "bcases_*.v")), key=lambda p: int(p.rsplit("_", 1)[1][:-2]))
    resb = vlib.eval_shards(shardsb)
    ctx.oblige(len(resb), sum(1 for r in resb if r["ok"]))
    bcases = vlib.load_jsonl(os.path.join(ctx.dir, "bcases.jsonl"))
    nb = 0
    for k, r in enumerate(resb):
        if r["ok"]:
            continue
        if r["mism"] is None:
            ctx.violation({"obligation": "correspondence shard " + os.path.basename(r["path"]),
                           "coqc_error": r["error"]}, False, "correspondence shard did not evaluate")
            continue
        for i in r["mism"]:
            bc = bcases[k * metab["per_shard"] + i]
            bc.pop("obs", None)
            bad.append({"type": bc["type"], "rows": bc["rows"], "cols": bc["cols"], "vals": bc["vals"], "views": [],
                        "op": {"name": "Bin" + bc["op"]}, "bin": bc})
            nb += 1
    ctx.log("correspondence (binary operations on views of one parent, joint iterator): %d cases in %d shards, "
            "%d mismatching (%.0fs coqc)" % (len(bcases), len(resb), nb, sum(r["secs"] for r in resb)))
    # third stream: callbacks / matrix-scalar / Outer / Equals / ConstDiag / typed readers on dense views (CorrMap.mismX)
    mp = os.path.join(ctx.dir, "xcases.meta.json")
    if not os.path.exists(mp):
        ctx.violation({"obligation": "C10 harness run (callback stream)"}, False, "the harness wrote no callback-operation cases")
        return bad
    metax = json.load(open(mp))
    vlib.merge_meta(ctx, metax)
    shardsx = sorted(glob.glob(os.path.join(ctx.dir, "xcases_*.v")), key=lambda p: int(p.rsplit("_", 1)[1][:-2]))
    resx = vlib.eval_shards(shardsx)
    ctx.oblige(len(resx), sum(1 for r in resx if r["ok"]))
    xcases = vlib.load_jsonl(os.path.join(ctx.dir, "xcases.jsonl"))
    nx = 0
    for k, r in enumerate(resx):
        if r["ok"]:
            continue
        if r["mism"] is None:
            ctx.violation({"obligation": "correspondence shard " + os.path.basename(r["path"]),
                           "coqc_error": r["error"]}, False, "correspondence shard did not evaluate")
            continue
        for i in r["mism"]:
            bad.append(xcases[k * metax["per_shard"] + i])
            nx += 1
    ctx.log("correspondence (Map/MapSet/Reduce/writing iterator callbacks, matrix-scalar, Outer, Equals, ConstDiag, typed "
            "readers on views): %d cases in %d shards, %d mismatching (%.0fs coqc)" % (
                len(xcases), len(resx), nx, sum(r["secs"] for r in resx)))
    return bad


def deviating_types(ctx):
    """Element types whose instantiation the translator reported as different from its family (Gen / GenAcc / GenLoop)."""
    out = []
    def walk(x):
        if isinstance(x, dict):
            for k, v in x.items():
                if k == "different" and isinstance(v, list):
                    out.extend(str(e) for e in v)
                else:
                    walk(v)
    walk(ctx.cov.get("translator") or {})
    names = {"float64": "Float64", "float32": "Float32", "int": "Int", "int64": "Int64", "int32": "Int32", "int16": "Int16",
             "real64": "Real64", "real32": "Real32"}
    return sorted({names[e] for e in out if e in names})


def hunt(ctx, binary, seeds, n, directed=True):
    """Property-level oracle on the implementation: seeds first, then exhaustive small shapes, then random."""
    rp = os.path.join(ctx.dir, "hunt_in.json")
    for c in seeds:
        c.pop("obs", None)
    json.dump({"cases": seeds[:200], "types": deviating_types(ctx) if directed else []}, open(rp, "w"))
    rc, out = vlib.sh([binary, "--extra", "hunt", "--replay", rp, "--n", str(n), "--seed", str(ctx.seed),
                       "--tier", ctx.tier, "--out", ctx.dir], timeout=1500, env=vlib.go_env())
    hp = os.path.join(ctx.dir, "hunt.json")
    if rc == 0 and os.path.exists(hp):
        return json.load(open(hp))
    ctx.violation({"obligation": "C10 hunt run", "log": out[-3000:]}, False, "the implementation-level oracle crashed")
    return {"tried": 0, "failures": []}


def corpus_cases():
    out = []
    p = os.path.join(vlib.ROOT, "corpus/C10/corpus.jsonl")
    if os.path.exists(p):
        for l in open(p):
            l = l.strip()
            if l and not l.startswith("#"):
                out.append(json.loads(l))
    return out


def describe(f):
    c = f["case"]
    if c.get("bin"):
        b = c["bin"]
        return "%s on %s %dx%d parent r=%s a=%s b=%s: %s" % (f["site"], b.get("type"), b.get("rows"), b.get("cols"),
                                                            json.dumps(b.get("r")), json.dumps(b.get("a")),
                                                            json.dumps(b.get("b")), f["what"][:300])
    return "%s on %s %dx%d views=%s op=%s: %s" % (f["site"], c.get("type"), c.get("rows"), c.get("cols"),
                                                   json.dumps(c.get("views")), json.dumps(c.get("op")), f["what"][:300])


def run(ctx):
    ctx.cov["trusted_base"] = vlib.TRUSTED_BASE_COMMON + [
        "go2coq_c10 (the integer-kernel translator, ~500 lines of Go, go/parser + go/ast only): trusted for the shape of "
        "what it emits; its output is executed against the implementation by the correspondence run; its accessor-provenance "
        "pass (acc.go) and loop-shape pass (loops.go) are pattern matchers whose verdicts are trusted as classifications",
        "axioms: see 'print_assumptions' (expected: closed under the global context)"]
    ctx.cov["partial"] = PARTIAL
    tr_ok, failures = translate(ctx)
    ok, pf = vlib.proof_stage(ctx, TARGETS, PROPS)
    failures += pf
    thms = vlib.theorem_names(os.path.join(vlib.COQ, "C10/Props.v"))
    if ok:
        ctx.cov["print_assumptions"] = vlib.print_assumptions("C10", [("C10.Props", thms)], ctx.dir)
    binary, blog = vlib.build_harness("c10")
    if binary is None:
        ctx.violation({"obligation": "build of harness/c10 against the repository", "log": blog[-3000:]}, False,
                      "tie lost: the C10 harness no longer builds against the repository")
        return
    n = 700 if ctx.tier == "quick" else 7000
    bad = corr(ctx, binary, n, os.path.join(vlib.ROOT, "corpus/C10/corpus.jsonl"))
    h = hunt(ctx, binary, bad + corpus_cases(), 3000 if ctx.tier == "quick" else 40000)
    ctx.cov["hunt"] = {"checked": h.get("tried", 0), "distinct_failure_sites": len((h.get("failures") or []))}
    kfs = known_list()
    unknown, seen = [], {}
    for f in (h.get("failures") or []):
        k = match_known(f, kfs)
        if k is None:
            unknown.append(f)
        else:
            seen.setdefault(k["id"], (k, f))
    for fid, (k, f) in sorted(seen.items()):
        ctx.known_finding(fid, "%s [still reproduces: %s]" % (k["what"], describe(f)[:200]))
    ctx.log("hunt: %d property checks on the implementation, %d known-finding sites, %d unknown failures" % (
        h.get("tried", 0), len(seen), len(unknown)))
    broken = [f["target"] for f in failures] + (["correspondence C10.Corr.check"] if bad else [])
    for f in unknown[:5]:
        ctx.violation({"case": f["case"], "failure": f["what"], "site": f["site"], "flags": f["flags"], "broken": broken},
                      True, "a view does not address the elements it denotes: " + describe(f))
    if not unknown:
        for f in failures:
            ctx.violation({"obligation": f["target"], "lemma": f.get("lemma"), "errors": f.get("errors")}, False,
                          "proof obligation no longer checks: %s %s" % (f["target"], f.get("lemma") or ""))
        if bad:
            ctx.violation({"case": bad[0], "obligation": "correspondence C10.Corr.check (model vs implementation)",
                           "n_mismatching": len(bad)}, False,
                          "model and implementation disagree on a view program, but no input violating the property was found")


def replay(ctx, path):
    rp = json.load(open(path))
    if "case" not in rp:
        print("replay names a broken obligation, not an input: %s" % rp.get("obligation"))
        tr_ok, failures = translate(ctx)
        ok, pf = vlib.proof_stage(ctx, TARGETS, PROPS)
        return 0 if (ok and tr_ok) else 1
    translate(ctx)
    binary, blog = vlib.build_harness("c10")
    if binary is None:
        print(blog)
        return 2
    case = dict(rp["case"])
    agree = True
    if case.get("op", {}).get("name") not in ("", "ij", None):
        rc, out = vlib.sh([binary, "--replay", path, "--out", ctx.dir], env=vlib.go_env())
        res = vlib.eval_shards(sorted(glob.glob(os.path.join(ctx.dir, "replay_*.v"))))
        agree = bool(res) and all(r["ok"] for r in res)
    if case.get("op", {}).get("name") == "ij":
        case["op"] = {"name": ""}
    h = hunt(ctx, binary, [case], 0, directed=False)
    kfs = known_list()
    unknown = [f for f in (h.get("failures") or []) if match_known(f, kfs) is None]
    known = [f for f in (h.get("failures") or []) if match_known(f, kfs) is not None]
    print("model/implementation agree on the replayed view program: %s" % agree)
    for f in known:
        print("known finding reproduces: %s" % describe(f))
    print("property oracle on the implementation: %s" % ("; ".join(describe(f) for f in unknown) if unknown else "holds"
                                                         + (" (apart from the known findings above)" if known else "")))
    return 1 if (unknown or not agree) else 0
