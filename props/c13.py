"""C13 — special functions are accurate over their whole domain.

Decided by proof: the library's own glue (coq/C13/Props.v), the exact tables, the closed forms.
Tie: (a) bit-exact vm_compute replay of the generic drivers / Horner / kernel series objects / tables,
(b) one Coq-Interval goal per anchor |Go value - closed form| <= k*ulp*cond.
Supporting only (feeds the hunt, labelled so): the dense sweep of the functional relations."""
import glob, json, os, re, shutil
import concurrent.futures as cf
import vlib

TARGETS = ["Base/Num.vo", "Base/Corr.vo", "C13/Model.vo", "C13/ModelKernels.vo", "C13/Spec.vo", "C13/SpecTest.vo",
           "C13/Corr.vo", "C13/Anchors.vo", "C13/ProofsGlue.vo", "C13/ProofsDrivers.vo", "C13/ProofsTables.vo",
           "C13/ProofsAnchors.vo", "C13/Spec2.vo", "C13/ProofsAnchors2.vo", "C13/Anchors2.vo", "C13/Spec3.vo", "C13/ProofsAnchors3.vo",
           "C13/Spec4.vo", "C13/Model4.vo", "C13/ProofsAnchors4.vo", "C13/Anchors4.vo",
           "C13/Spec6.vo", "C13/ProofsAnchors6.vo", "C13/Anchors6.vo",
           "C13/Model7.vo", "C13/Proofs7.vo", "C13/Anchors7.vo", "C13/Props.vo"]
PROPS = ["C13/Props.v"]
PARTIAL = ("No theorem about the accuracy of the Boost-ported kernels (gamma_incomplete_imp, igamma_temme_large, bessel_ik, "
           "temme_ik, CF1/CF2, digamma/trigamma/polygamma/zeta rational approximations) over all float64 arguments is attempted. "
           "Proved over R for all inputs: LogAdd/LogSub incl. -Inf operands, Polynomial/EvenPolynomial/LogPolynomial.Eval = polynomial "
           "value, SumSeries = init + partial sum at the first index where the coded test fires or the term limit, "
           "EvalContinuedFraction = a0 / convergent at that index (when no `tiny` substitution fires), Mlgamma/Mgamma relative to "
           "lnGamma/Gamma; exhaustively: Factorial table = n! and exactly representable, BernoulliNumber(n) = recurrence value for "
           "n <= 64 only (_partial). Closed forms (Gamma, psi, psi_1, psi_n differences, Q(a,x) at integer/half-integer a incl. the "
           "linear-size nested form used for a up to 500, I_{+-(n+1/2)} incl. the exact rational-argument polynomial form used for "
           "n up to 300, zeta(2k) from zeta(-n) and the functional equation) are proved from defining relations taken as hypotheses "
           "(functional equation + base value); only the incomplete-gamma hypotheses are shown satisfiable by an Example. Kernels are "
           "validated against Coq-certified enclosures of these closed forms at anchors only; accuracy between anchors is not proved. "
           "Round 2: anchors sit ON every method-selection boundary for which a closed form exists (argument at the boundary and "
           "+-1 ulp); the boundary list is derived from the source by a go/ast pass and every comparison no certified anchor "
           "evaluates on both outcomes is listed under boundaries.uncovered / one_side (not claimed). Boundaries in non-integer, "
           "non-half-integer a (a = 20 +- ulp, a = 200 +- ulp, -0.4/ln x < a, 0.75 x < a, method 3 tgamma_small_upper_part) have no "
           "closed form here and are only covered by the supporting continuity / monotonicity check across the boundary (no jump "
           "beyond density*ulp + rounding noise), which is differential evidence, not a proof. Zeta is anchored at even positive "
           "and non-positive integers only (where the code itself evaluates the closed form); odd integers and non-integers: sweep "
           "only. Branches no certified anchor reaches are listed under uncovered_branches (measured with go build -cover). The step "
           "from R to binary64 in the glue is bounded per sampled case only (bit-exact replay for + - * /, certified enclosure "
           "otherwise). The dense relation sweep is supporting differential testing of the code against itself, not the decision. "
           "Round 3 (whole domain): every sign / parity (`& 1`, `% 2`) / integer-ness test of the source is listed by the go/ast pass and must "
           "have an anchor on each side (exceptions listed under boundaries.sign_parity_integer_not_both_sides). Integer-order Bessel functions "
           "have no elementary closed form: their parity / negative-order branches are anchored by EXACT outcome anchors decided in float64 "
           "(I(v,-x) = +-I(v,|x|) bit for bit, I_{-n} = I_n, NaN for the logarithm of a negative value, panic-or-NaN for non-integer order with "
           "x < 0) plus a float64 power-series value; the identities themselves are theorems (BesselI_integer_order_parity ...), the series "
           "value is not certified in Coq. Zeta at negative non-integers is certified only RELATIVE to Go's own Zeta(1-s) through the "
           "functional equation (Zeta(1-s), s > 1 non-integer, is checked by direct summation in the sweep only). LogErfc(x) = ln 2 for "
           "x <= -6 is an exact float anchor (the bound erfc(6) < 2^-55 is not certified in Coq). "
           "Round 5 (tiny-argument and ORDER-selected branches): proved for all s > 1, x > 0, K the integral-test enclosure of the Hurwitz series "
           "sum_k (x+k)^-s (Hurwitz_series_enclosure, convergence, x -> x+1 shift) and from it, for every order n >= 1, the enclosure of psi_n(x), the "
           "recurrence psi_n(x+1) = psi_n(x) + (-1)^n n!/x^(n+1) and the forward recursion of polygamma_attransitionplus; the linear and log-domain "
           "formula pairs selected by `n > factorialMax && n*n > MaxLogFloat64` (n >= 27), `part_term == 0`, the huge-x test and the overflow test of the "
           "forward recursion are proved equal over R (Model4.v: R-models, rounding not modelled). Zeta's branch |s| < rootEpsilon is proved within 2^-50 "
           "relative on its whole window GIVEN the degree-3 Taylor expansion of zeta at 0 (hypothesis zeta_taylor0; the second and third Taylor coefficients "
           "enter as rational constants and are not derived in Coq). Anchors: Zeta at 25 non-zero magnitudes x both signs inside / at / outside the window "
           "(4 units of 2^-53), Polygamma at n = 21,22,26,27,28,100 (thorough: 17 orders) in every x-regime against the certified series (8 (n+2) ulp), "
           "recurrence anchors across x = 6 + 4n, n = 114/115 (overflow test of the forward recursion), huge x; for x between ~50 n and ~2^56 n only the "
           "coarser enclosure by the integral alone (relative radius n/x) is certified, small orders n < 16 at x > 3 are left to the round-1 difference "
           "anchors (blind to relative errors of psi_n(x) at large x) and to the recurrence sweep. Zeta at non-integer s >= 7 and odd integers >= 7 is "
           "certified by the same series; zeta_imp_prec below 7 (s < 1, <= 2, <= 4) has only the smoothness relation across its thresholds. The go/ast pass "
           "now lists integer-order comparisons of polygamma.go / zeta.go / factorial.go and labels each comparison select / convergence "
           "(boundaries.by_role, boundaries.select_not_both_sides, boundaries.newly_covered_round5 with the covering anchors). "
           "Round 6 (accuracy RELATIVE TO THE RESULT where the result is near zero): proved for all finite a <= b (LogSub: all b < a kept apart by the roundings) "
           "under the STANDARD MODEL of floating-point arithmetic (each of the four operations of the text -- subtraction, exp, log1p, addition -- returns "
           "the exact value times 1 + delta, |delta| <= u; underflow and the -Inf / NaN paths are outside this model and stay with the R-model theorems) that "
           "the computed LogAdd / LogSub is within la_bound / ls_bound = u |result| + ~u (3 + |a-b|) e^(a-b) of ln(e^a +- e^b): a bound relative to the result, "
           "not an absolute one. That Go's math.Exp / math.Log1p satisfy the model with u = 2^-51 is an ASSUMPTION (their documented < 1 ulp error), checked only at "
           "the anchors: ~190 certified LogAdd / LogSub anchors whose tolerance is la_bound / ls_bound itself (arguments > 36 apart with the larger one 0 or tiny, "
           "results crossing zero by cancellation, equal arguments, both orders, seed-dependent distances up to 700). Integer-order I_n: proved for every n, x >= 0, K "
           "past the ratio test that the power series lies in [partial sum, partial sum + geometric tail bound] (is_bessel_I = sum of the series, hypothesis; its "
           "satisfiability for all x is not proved, only the ratio-test side conditions by Example) and the linear-size nested form of the partial sum; BesselI(n, x) and "
           "LogBesselI(n, x) are certified against it at n in {0,1,2,5,7}, x from 1e-150 to 30 (thorough: 650) incl. ln I_0(x) = x^2/4 for x < 1e-7 RELATIVE to the result "
           "with tolerance 4 ulp (4 + |2 ln x - ln 4|) (the log-domain formulation loses |ln x| ulps: proposed finding C13-LogBesselI0-tiny-x-log-domain-loss). Between the "
           "anchors nothing is proved about bessel_i0_log / bessel_i1_log (their polynomial coefficients are not modelled). LogErfc at tiny |x| down to 1e-300 is "
           "certified relative to the result against the series model over R and (to 1e-100) against the erfc integral; LogErfc at x < -8 down to -MaxFloat64 and "
           "Digamma / Trigamma at 1/2 - m up to m = 2^50 are exact-outcome anchors decided in float64 (ln 2 within 2 ulp; reflection identities against Go's own value at "
           "1/2 + m: differential, not certified). "
           "Round 7 (results at the edge of the binary64 range): proved over R for ALL a > 0, z > 0 that every guarded formula of regularised_gamma_prefix "
           "(direct product, scaled power, log form; a < 10: product or its underflow fallback) has the value (z/L)^a e^(L-z)/sum, L = max(10, a), and that the split "
           "exponential of the branch x >= 500 of bessel_i0 / bessel_i1 equals e^x P(1/x)/sqrt x with its partial product never above the result (Model7.v: R-models; "
           "rounding, the `sum` (lower_gamma_series / upper_gamma_fraction) and WHICH guard fires in binary64 are not modelled; nothing is proved about overflow of the "
           "float evaluation itself, only the R-identity the guards rely on). Tie: BesselI(0/1, x) within 16 ulp of the R-model at x = 500 .. 713.9 (the 5 coefficients are "
           "hand-transcribed decimal text, not regenerated), MaxLogFloat64 = 709 / MinLogFloat64 = -709 exact. Certified anchors: GammaQ / GammaP / GammaPfirstDerivative at "
           "integer a = 10 .. 200 with x - a = 708.5 .. 800 and at a = 650, x = 1950 (a ln(x/a) > 709.78 and x - a > 745 while Q ~ 1e-257), Q down to 1e-300, against the "
           "nested closed form; BesselI(0/1/2, x), LogBesselI(0, x) at x in [709.8, 713.9] against the power series (quick: 7 points; thorough: 37). NOT certified: non-integer a "
           "in the far tail (no closed form), the far LOWER tail and GammaPfirstDerivative at a ~ 1e4 (float64 differential references only, exact-outcome anchors), "
           "underflow points (= 0 / = 1 exact outcomes decided in float64).")
BOUNDARIES_EXPECTED = "corpus/C13/boundaries_expected.json"
try:
    ROUND5_NEW = set(json.load(open(os.path.join(vlib.ROOT, "corpus/C13/round5_targets.json"))))
except (OSError, ValueError):
    ROUND5_NEW = set()


def boundary_report(ctx, binary, anchors, okset):
    """go/ast pass over vlib.REPO/special (harness --extra boundaries=...) matched with the comparison tags of the certified anchors"""
    rc, out = vlib.sh([binary, "--extra", "boundaries=" + vlib.REPO, "--out", ctx.dir], timeout=120, env=vlib.go_env())
    bp = os.path.join(ctx.dir, "boundaries.json")
    if rc != 0 or not os.path.exists(bp):
        ctx.notes.append("boundary pass failed: " + out[-300:])
        return
    bs = json.load(open(bp))
    stat, examples = {}, {}
    for a in anchors:
        if a["id"] not in okset and not ((a.get("skip") or "").startswith("exact") and not a.get("nonfinite")):
            continue     # certified by Coq-Interval, or an exact outcome anchor that was observed as specified
        for p in a.get("preds") or []:
            st = stat.setdefault(p["k"], {"adj_t": 0, "adj_f": 0, "t": 0, "f": 0})
            st["t" if p["t"] else "f"] += 1
            if p["adj"]:
                st["adj_t" if p["t"] else "adj_f"] += 1
            ex = examples.setdefault(p["k"], {"t": [], "f": []})["t" if p["t"] else "f"]
            if p["adj"]:
                ex.insert(0, a["desc"])
            elif len(ex) < 2:
                ex.append(a["desc"])
            del ex[2:]
    rows, seen = [], set()
    cls_count = {"both_sides_adjacent": 0, "at_boundary_and_other_side": 0, "both_outcomes_not_adjacent": 0, "one_side": 0, "uncovered": 0}
    for b in bs:
        if b["key"] in seen:
            continue
        seen.add(b["key"])
        st = stat.get(b["key"])
        if not st:
            c = "uncovered"
        elif st["adj_t"] and st["adj_f"]:
            c = "both_sides_adjacent"
        elif (st["adj_t"] or st["adj_f"]) and st["t"] and st["f"]:
            c = "at_boundary_and_other_side"
        elif st["t"] and st["f"]:
            c = "both_outcomes_not_adjacent"
        else:
            c = "one_side"
        cls_count[c] += 1
        rows.append({"site": "%s:%d" % (b["file"], b["line"]), "key": b["key"], "class": c, "anchors": st, "kind": b.get("kind", ""),
                     "role": b.get("role", ""), "int": bool(b.get("int")), "covered_by": examples.get(b["key"])})
    exp_path = os.path.join(vlib.ROOT, BOUNDARIES_EXPECTED)
    drift = None
    if os.path.exists(exp_path):
        exp = set(json.load(open(exp_path)))
        drift = {"new_or_changed_in_source": sorted(seen - exp), "no_longer_in_source": sorted(exp - seen)}
        if drift["new_or_changed_in_source"] or drift["no_longer_in_source"]:
            ctx.notes.append("method-selection comparisons of the source differ from corpus/C13/boundaries_expected.json: %s" % json.dumps(drift))
    ctx.cov["boundaries"] = {"how": "go/ast pass (harness/c13/astpass.go) over the anchored functions: comparisons of float parameters / locals derived "
                                    "from them; matched with the comparisons evaluated on the path of each CERTIFIED anchor (replica of the control flow in "
                                    "harness/c13/boundary.go; adjacent = operands within 4 ulp or one grid step)",
                             "distinct": len(seen), "classes": cls_count,
                             "uncovered": [r["key"] for r in rows if r["class"] == "uncovered"],
                             "one_side": [r["key"] for r in rows if r["class"] == "one_side"],
                             "sign_parity_integer": {"listed": sum(1 for r in rows if r["kind"]),
                                                     "both_sides": sum(1 for r in rows if r["kind"] and r["class"] not in ("uncovered", "one_side"))},
                             "sign_parity_integer_not_both_sides": [r["kind"] + " " + r["key"] for r in rows if r["kind"] and r["class"] in ("uncovered", "one_side")],
                             "by_role": {role: {c: sum(1 for r in rows if r["role"] == role and r["class"] == c) for c in cls_count}
                                         for role in ("select", "convergence")},
                             "integer_order_comparisons": {"listed": sum(1 for r in rows if r["int"]),
                                                           "both_sides": sum(1 for r in rows if r["int"] and r["class"] not in ("uncovered", "one_side"))},
                             "select_not_both_sides": [r["key"] for r in rows if r["role"] == "select" and r["class"] in ("uncovered", "one_side")],
                             "newly_covered_round5": [{"key": r["key"], "site": r["site"], "class": r["class"], "true_side": (r["covered_by"] or {}).get("t"),
                                                       "false_side": (r["covered_by"] or {}).get("f")}
                                                      for r in rows if r["key"] in ROUND5_NEW and r["class"] not in ("uncovered", "one_side")],
                             "drift_vs_expected": drift, "list": rows}
    exp2 = os.path.join(vlib.ROOT, "corpus/C13/parity_exempt.json")
    if os.path.exists(exp2):
        exempt = set(json.load(open(exp2)).keys())
        lost = [k for k in ctx.cov["boundaries"]["sign_parity_integer_not_both_sides"] if k.split(" ", 1)[1] not in exempt]
        if lost:
            ctx.notes.append("sign/parity/integer-ness tests of the source WITHOUT an anchor on each side (not in corpus/C13/parity_exempt.json): %s" % lost)
    ctx.log("boundaries: %d distinct comparisons; %s" % (len(seen), ", ".join("%s=%d" % kv for kv in cls_count.items())))


COVER_FUNCS = {"gamma.go": ["gamma_incomplete_imp", "igamma_temme_large", "tgamma_small_upper_part", "regularised_gamma_prefix",
                            "full_igamma_prefix", "finite_gamma_q", "finite_half_gamma_q", "gamma_p_derivative_imp"],
               "bessel.go": ["bessel_ik", "bessel_i_imp", "temme_ik", "CF1_ik", "CF2_ik", "bessel_i_small_z_series", "asymptotic_bessel_i_large_x"],
               "besselLog.go": ["bessel_ik_log", "bessel_i_log", "asymptotic_bessel_i_large_x_log", "bessel_i_small_z_series_log"],
               "erfc.go": ["LogErfc"], "digamma.go": ["digamma_imp"], "trigamma.go": ["trigamma_imp", "trigamma_prec"],
               "polygamma.go": ["polygamma_imp"], "series.go": ["SumSeries", "SumLogSeries"], "continued_fraction.go": ["EvalContinuedFraction"],
               "polynomial.go": ["Eval"]}


def build_cover(ctx):
    """Second build of the harness with Go's block-coverage instrumentation of /repo/special (no hook needed)."""
    outp = os.path.join(vlib.RUNS, "bin", "c13_cover")
    cmd = ["go", "build", "-tags", "verif", "-cover",
           "-coverpkg=adharness/c13,github.com/pbenner/autodiff/special,github.com/pbenner/autodiff/logarithmetic", "-o", outp]
    if vlib.REPO != "/repo":
        alt = os.path.join(vlib.RUNS, "go.alt.mod")
        if os.path.exists(alt):
            cmd.append("-modfile=" + alt)
    cmd.append("./c13")
    rc, out = vlib.sh(cmd, cwd=vlib.HARNESS, env=vlib.go_env(), timeout=600)
    return (outp if rc == 0 else None), out


def func_ranges(path, names):
    """line ranges of top-level funcs (by name) in a Go file"""
    res = {}
    try:
        lines = open(path).read().split("\n")
    except OSError:
        return res
    cur = None
    for i, l in enumerate(lines, 1):
        m = re.match(r"func\s+(?:\([^)]*\)\s*)?([A-Za-z0-9_]+)\s*\(", l)
        if m:
            cur = m.group(1)
            if cur in names:
                res.setdefault(cur, [i, i])
        if cur in res:
            res[cur][1] = i
        if l.startswith("}"):
            cur = None
    return res


def coverage(ctx, covdir):
    txt = os.path.join(ctx.dir, "cover.txt")
    rc, out = vlib.sh(["go", "tool", "covdata", "textfmt", "-i=" + covdir, "-o=" + txt], env=vlib.go_env(), timeout=120)
    if rc != 0 or not os.path.exists(txt):
        return None
    blocks = {}
    for l in open(txt):
        m = re.match(r".*/special/([a-zA-Z_]+\.go):(\d+)\.\d+,(\d+)\.\d+ \d+ (\d+)", l)
        if m:
            blocks.setdefault(m.group(1), []).append((int(m.group(2)), int(m.group(3)), int(m.group(4))))
    unc, tot, hit = [], 0, 0
    for f, names in COVER_FUNCS.items():
        rng = func_ranges(os.path.join(vlib.REPO, "special", f), names)
        for (a, b, c) in blocks.get(f, []):
            for name, (lo, hi) in rng.items():
                if lo <= a <= hi:
                    tot += 1
                    if c > 0:
                        hit += 1
                    else:
                        unc.append("%s:%s:%d-%d" % (f, name, a, b))
    return {"blocks": tot, "covered": hit, "uncovered": sorted(set(unc))}


def eval_anchor_shards(paths, timeout=1500):
    def one(p):
        rc, out = vlib.coqc_file(p, timeout=timeout)
        ok = [int(x) for x in re.findall(r"ANCHOR-OK (\d+)", out)]
        bad = [int(x) for x in re.findall(r"ANCHOR-FAIL (\d+)", out)]
        for ext in (".vo", ".vok", ".vos", ".glob"):
            q = p[:-2] + ext
            if os.path.exists(q):
                os.remove(q)
        aux = os.path.join(os.path.dirname(p), "." + os.path.basename(p)[:-2] + ".aux")
        if os.path.exists(aux):
            os.remove(aux)
        return {"path": p, "rc": rc, "ok": ok, "fail": bad, "log": out[-1500:] if rc != 0 else ""}
    with cf.ThreadPoolExecutor(max_workers=int(os.environ.get("C13_WORKERS", vlib.NCPU))) as ex:
        res = list(ex.map(one, paths))
    # a shard killed by a signal (loaded machine: OOM killer, rc < 0) says nothing about the anchors: re-run those, two at a time, up to twice
    for _ in range(2):
        again = [k for k, r in enumerate(res) if r["rc"] is not None and r["rc"] < 0]
        if not again:
            break
        with cf.ThreadPoolExecutor(max_workers=2) as ex:
            for k, r in zip(again, ex.map(one, [res[k]["path"] for k in again])):
                res[k] = r
    return res


def hunt(ctx, binary, anchors, findings):
    hin = os.path.join(ctx.dir, "hunt_in.json")
    json.dump({"anchors": anchors[:40], "findings": findings[:40]}, open(hin, "w"))
    rc, out = vlib.sh([binary, "--extra", "hunt", "--replay", hin, "--out", ctx.dir, "--seed", str(ctx.seed)], timeout=600, env=vlib.go_env())
    hp = os.path.join(ctx.dir, "hunt.json")
    if rc == 0 and os.path.exists(hp):
        return json.load(open(hp))
    return {"found": False, "results": []}


def known(entry):
    """narrow match against known findings: same function/relation and same algorithm-branch label"""
    props = vlib.known_findings("C13")
    pp = os.path.join(vlib.ROOT, "corpus/C13/known_findings_proposed.json")
    if os.path.exists(pp):
        try:
            props = props + [f for f in json.load(open(pp)) if f.get("property") == "C13"]
        except ValueError:
            pass
    for f in props:
        m = f.get("match", {})
        if m.get("fn") and m["fn"] != entry.get("fn") and m["fn"] != entry.get("kind"):
            continue
        if m.get("label_contains") and m["label_contains"] not in entry.get("label", ""):
            continue
        if m.get("pred") and m["pred"] != entry.get("pred"):
            continue
        return f
    return None


def numsorted(paths):
    """cases_10.v after cases_9.v (the case index of a mismatch is shard number * per_shard + position)"""
    return sorted(paths, key=lambda q: int(re.findall(r"_(\d+)\.v$", q)[0]))


def run(ctx):
    ctx.cov["trusted_base"] = vlib.TRUSTED_BASE_COMMON + [
        "Coq-Interval 4.x `interval`/`integral` (reflexive, decides every anchor goal); Coquelicot RInt for erf",
        "float64 -> exact dyadic printing of observed values (harness R()), closed-form definitions in coq/C13/Spec.v",
        "Go's -cover instrumentation for the branch-coverage report (report only)",
        "axioms: see print_assumptions (expected: the Reals axioms of the standard library, classical logic, functional extensionality)"]
    ctx.cov["partial"] = PARTIAL
    ok, failures = vlib.proof_stage(ctx, TARGETS, PROPS)
    if ok:
        thms = vlib.theorem_names(os.path.join(vlib.COQ, "C13/Props.v"))
        ctx.cov["print_assumptions"] = vlib.print_assumptions("C13", [("C13.Props", thms)], ctx.dir)
    binary, blog = vlib.build_harness("c13")
    if binary is None:
        ctx.violation({"obligation": "build of harness/c13 against the library", "log": blog[-3000:]}, False,
                      "tie lost: the C13 harness no longer builds against the library")
        return
    covdir = os.path.join(ctx.dir, "covdata")
    os.makedirs(covdir, exist_ok=True)
    env_extra = {"GOCOVERDIR": covdir}
    n = 100 if ctx.tier == "quick" else 1000
    corpus = os.path.join(vlib.ROOT, "corpus/C13/corpus.jsonl")
    env = vlib.go_env(); env.update(env_extra)

    def cover_job():
        # round 7: the instrumented build and its run (report only) overlap with the harness run and the Coq shards
        cb, _ = build_cover(ctx)
        if cb:
            # coverage is measured on a run that evaluates the anchors ONLY (no sweep, no exact cases; writes no files)
            vlib.sh([cb, "--seed", str(ctx.seed), "--n", str(n), "--out", ctx.dir, "--tier", ctx.tier, "--extra", "anchors-only"],
                    timeout=600, cwd=vlib.ROOT, env=env)
        return cb
    bg = cf.ThreadPoolExecutor(max_workers=2)
    fut_cover = bg.submit(cover_job)
    cmd = [binary, "--seed", str(ctx.seed), "--n", str(n), "--out", ctx.dir, "--tier", ctx.tier, "--extra", "corpus=" + corpus]
    rc, out = vlib.sh(cmd, timeout=900, cwd=vlib.ROOT, env=vlib.go_env())
    if rc != 0:
        ctx.violation({"obligation": "C13 harness run", "log": out[-3000:]}, False, "harness failed on the implementation")
        fut_cover.result(); bg.shutdown()
        return
    # round 7: the anchor shards (Coq-Interval, the long pole) start now and overlap with the exact shards
    fut_anch = bg.submit(eval_anchor_shards, numsorted(glob.glob(os.path.join(ctx.dir, "anchors_*.v"))))
    # ---- exact part
    meta = json.load(open(os.path.join(ctx.dir, "cases.meta.json")))
    vlib.merge_meta(ctx, meta)
    res = vlib.eval_shards(numsorted(glob.glob(os.path.join(ctx.dir, "cases_*.v"))))
    ctx.oblige(len(res), sum(1 for r in res if r["ok"]))
    cases = vlib.load_jsonl(os.path.join(ctx.dir, "cases.jsonl"))
    bad_cases = []
    for k, r in enumerate(res):
        if r["ok"]:
            continue
        if r["mism"] is None:
            ctx.violation({"obligation": "correspondence shard " + os.path.basename(r["path"]), "coqc_error": r["error"]}, False,
                          "correspondence shard did not evaluate")
            continue
        bad_cases += [cases[k * meta["per_shard"] + i] for i in r["mism"]]
    ctx.log("exact correspondence: %d cases in %d shards, %d mismatching" % (len(cases), len(res), len(bad_cases)))
    # ---- anchors
    anchors = vlib.load_jsonl(os.path.join(ctx.dir, "anchors.jsonl"))
    ameta = json.load(open(os.path.join(ctx.dir, "anchors.meta.json")))
    ares = fut_anch.result()
    cover_bin = fut_cover.result()
    bg.shutdown()
    okset = set(i for r in ares for i in r["ok"])
    failset = set(i for r in ares for i in r["fail"])
    goals = [a for a in anchors if not a.get("skip") and not a.get("nonfinite")]
    nonfin = [a for a in anchors if a.get("nonfinite") and not a.get("skip")]
    undecided = [a for a in goals if a["id"] not in okset and a["id"] not in failset]
    failing = [a for a in goals if a["id"] in failset] + nonfin
    ctx.oblige(len(goals) + len(nonfin), sum(1 for a in goals if a["id"] in okset))
    ctx.cov["evaluations"] = ctx.cov.get("evaluations", 0) + len(anchors)
    ctx.cov["distinct_nontrivial"] = ctx.cov.get("distinct_nontrivial", 0) + len(okset)
    ctx.cov["rule"] = (ctx.cov.get("rule", "") + " | anchor is non-trivial iff its Coq-Interval goal was certified (closed form enclosure vs the Go value)")
    ctx.cov.setdefault("input_distribution", {})["anchors"] = ameta["histogram"]
    ctx.cov["anchors"] = {"total": len(anchors), "certified": len(okset), "failing": len(failing), "undecided": len(undecided),
                          "skipped": sum(1 for a in anchors if a.get("skip"))}
    ctx.cov["samples"] = (ctx.cov.get("samples") or []) + [{"anchor": a["desc"], "observed": a["obs"], "tol": a["tol"]} for a in anchors[:2]]
    ctx.log("anchors: %d total, %d certified, %d failing, %d undecided, %d skipped" % (
        len(anchors), len(okset), len(failing), len(undecided), ctx.cov["anchors"]["skipped"]))
    for r in ares:
        if r["rc"] != 0:
            ctx.violation({"obligation": "anchor shard " + os.path.basename(r["path"]), "coqc_error": r["log"]}, False,
                          "anchor shard did not evaluate (coqc rc=%s)" % r["rc"])
    for a in anchors:
        if a.get("kf"):
            kf = known({"fn": a["fn"], "label": a["label"]})
            if kf:
                ctx.known_finding(kf["id"], kf["what"])
            else:
                ctx.violation({"anchor": a}, True, "anchor reproduces an unlisted finding: " + a["desc"])
    boundary_report(ctx, binary, anchors, okset)
    ctx.cov["domain_table"] = json.load(open(os.path.join(ctx.dir, "domain.json"))) if os.path.exists(os.path.join(ctx.dir, "domain.json")) else None
    ctx.cov["anchors"]["round2_boundary_and_large_order"] = {"total": sum(1 for a in anchors if a.get("bnd")),
                                                            "certified": sum(1 for a in anchors if a.get("bnd") and a["id"] in okset)}
    # ---- sweep + corpus (supporting; feeds the hunt)
    sweep = json.load(open(os.path.join(ctx.dir, "sweep.json")))
    corp = json.load(open(os.path.join(ctx.dir, "corpus.json"))) if os.path.exists(os.path.join(ctx.dir, "corpus.json")) else {"entries": 0, "failures": []}
    ctx.cov["sweep"] = {"label": "supporting differential testing of the code against itself; feeds the hunt, not the decision",
                        "points": sweep["points"], "failure_counts": sweep.get("failure_counts") or {}}
    ctx.cov["corpus"] = {"entries": corp["entries"], "failing": len(corp["failures"] or [])}
    sfail = sweep.get("failures") or []
    # ---- branch coverage
    if cover_bin:
        cv = coverage(ctx, covdir)
        if cv:
            ctx.cov["branch_coverage"] = {"blocks": cv["blocks"], "covered_by_anchor_arguments": cv["covered"],
                                          "how": "go build -cover block counters of the anchored functions on a run that evaluates the anchor arguments only (includes skipped/uncertified anchors)"}
            ctx.cov["uncovered_branches"] = cv["uncovered"] + [
                "(by reading) gamma_incomplete_imp method 3 (tgamma_small_upper_part: a < ~0.8 and not a half-integer) has no closed form "
                "here: sweep + continuity check only; bessel_ik asymptotic_bessel_i_large_x is unreachable for finite binary64 results "
                "(needs x > 4900 where I_v overflows)"]
            ctx.log("block coverage of the anchored functions by the anchor arguments: %d/%d" % (cv["covered"], cv["blocks"]))
    shutil.rmtree(covdir, ignore_errors=True)
    # ---- hunt / verdict
    broken = (not ok) or bad_cases or failing or undecided or sfail or (corp["failures"] or [])
    if not broken:
        return
    # every family of failing anchors is represented among the 40 the hunt looks at (round-robin by family, stable)
    rank, seen_f = {}, {}
    for a in failing:
        rank[a["id"]] = seen_f.get(a["fam"], 0)
        seen_f[a["fam"]] = rank[a["id"]] + 1
    failing.sort(key=lambda a: (rank[a["id"]], a["id"]))
    h = hunt(ctx, binary, failing, sfail)
    hres = h.get("results") or []
    results = hres + (corp["failures"] or [])
    new = []
    explained = set()          # failing anchors whose minimised input reproduces a known finding
    for k, e in enumerate(results):
        if not e.get("fails"):
            continue
        kf = known(e)
        if kf:
            ctx.known_finding(kf["id"], kf["what"])
            if k < min(len(failing), 40):
                explained.add(failing[k]["id"])
        else:
            new.append(e)
    unexplained = [a for a in failing if a["id"] not in explained] + undecided
    seen = set()
    for e in new:
        key = (e.get("fn") or e.get("kind"), e.get("label"))
        if key in seen:
            continue
        seen.add(key)
        ctx.violation({"input": e, "broken": "anchor/relation"}, True,
                      "special function violates its closed form / functional relation: " + e["failure"])
        if len(seen) >= 5:
            break
    for f in failures:
        ctx.violation({"obligation": f["target"], "lemma": f["lemma"], "errors": f["errors"]}, False,
                      "proof obligation no longer checks: %s %s" % (f["target"], f["lemma"] or ""))
    if bad_cases and not new:
        ctx.violation({"case": bad_cases[0], "obligation": "correspondence C13.Corr.check (model vs implementation)"}, False,
                      "model and implementation disagree on %d exact case(s) (first: %s); no input violating the property itself was found"
                      % (len(bad_cases), bad_cases[0].get("kind")))
    elif bad_cases:
        ctx.notes.append("exact correspondence mismatches: %d (first kind %s)" % (len(bad_cases), bad_cases[0].get("kind")))
    if unexplained and not new:
        a = unexplained[0]
        ctx.violation({"anchor": a, "obligation": "certified anchor"}, False,
                      "%d anchor(s) not certified within tolerance (first: %s), the float64 oracle does not confirm a failing input"
                      % (len(unexplained), a["desc"]))


def replay(ctx, path):
    rp = json.load(open(path))
    binary, blog = vlib.build_harness("c13")
    if binary is None:
        print(blog); return 2
    if "input" not in rp:
        print("replay names a broken obligation, not an input: %s" % rp.get("obligation"))
        ok, failures = vlib.proof_stage(ctx, TARGETS, PROPS)
        return 0 if ok else 1
    rc, out = vlib.sh([binary, "--replay", path, "--out", ctx.dir], env=vlib.go_env())
    r = json.load(open(os.path.join(ctx.dir, "replay.json")))
    print("property oracle on the implementation: %s (%s)" % ("holds" if r["holds"] else "FAILS", r["detail"]))
    return 0 if r["holds"] else 1
