"""C07 — optimizers and root finders return points that meet their stopping condition."""
import glob, json, os
import vlib

TARGETS = ["Base/Num.vo", "Base/Corr.vo", "C07/Model.vo", "C07/ModelNewton.vo", "C07/ModelNewtonDir.vo", "C07/ModelNewtonMin.vo", "C07/Corr.vo", "C07/Spec.vo",
           "C07/SpecNewton.vo", "C07/SpecNewtonMin.vo", "C07/ProofsNewton.vo", "C07/ProofsNewtonMin.vo", "C07/ProofsNewtonDir.vo", "C07/ExamplesNewton.vo", "C07/ExamplesNewtonDir.vo",
           "C07/ExamplesNewtonMin.vo", "C07/ModelSaga.vo", "C07/SpecSaga.vo", "C07/ProofsSaga.vo", "C07/ExamplesSaga.vo", "C07/ModelSagaJit.vo", "C07/ProofsSagaJit.vo", "C07/ExamplesSagaJit.vo", "C07/ModelBlahut.vo", "C07/ProofsBlahut.vo", "C07/ModelAdamGeneric.vo", "C07/ProofsAdamGeneric.vo",
           "C07/ProofsQuad.vo", "C07/ProofsBase.vo",
           "C07/ProofsRprop.vo", "C07/ProofsGD.vo", "C07/ProofsLS.vo", "C07/ProofsBfgs.vo", "C07/ProofsDense.vo", "C07/ProofsAdam.vo",
           "C07/Proofs.vo", "C07/Refuted.vo", "C07/ProofsR7.vo", "C07/Props.vo"]
PROPS = ["C07/Props.v"]
CORPUS = os.path.join(vlib.ROOT, "corpus/C07/corpus.jsonl")
PARTIAL = ("Theorems are about the hand-written oracle-machine models in coq/C07/Model*.v; the objective (through AD), "
           "hook and constraint callback are universally quantified oracles. Convergence rates and 'reaches the "
           "minimiser within the cap' are not claimed. AD seed bookkeeping (Variables(1/2), the -t1 seeds of RunMin's "
           "phi) is checked by the tie, not proved. newton (RunRoot, RunCrit, RunMin and newton_min's back-tracking "
           "variant through the add-only hook algorithm/newton/verif_c07.go): since round 6 getDirection is a FUNCTION "
           "(ModelNewtonDir.get_direction; the replay runs the machines closed over it and compares every direction "
           "bit for bit): its glue (which solver on what, error mapping, in-place 1/D, the two MdotM, MdotV) is modelled "
           "here, the solvers are C04's model of matrixInverse.Run / Gauss-Jordan and C05's model of "
           "cholesky_ldl_forcepd (imported, not re-proved here); 'Eigenvalue' is modelled as the panic it is whenever "
           "qrAlgorithm.Run returns (F-NEWTON-EIGENVALUE-MODE; a non-returning QR iteration is C20's). The quadratic "
           "convergence theorem over R takes 'the direction solves A t = grad' as a hypothesis for n >= 2 (it is C04's "
           "gauss_jordan_correct, not imported across properties) and is closed for n = 1; over R there is no NaN, so the "
           "'singular' outcome (detected by NaN in the Go code) exists only in the binary64 instance. "
           "saga (the four template instances and sagaJit with JitUpdateL1): math/rand's draws are an oracle (the "
           "thread partition is C17's); the stop theorem states the test over ALL coordinates (unconditional since fix "
           "494d9f3; the pre-fix witness is a regression example and a corpus run). blahut: the iteration body (log/exp/pow) is a step oracle, tied through a "
           "lock-step re-implementation in the harness; blahut has no stop test of its own, the KKT clause is vacuous. "
           "Constraint clause: proved for rprop, rprop_dense, adam_dense, adam.Run (cap included since fix d91fb9b), "
           "newton_root, newton_min back-tracking; "
           "_partial/refuted for lineSearch zoom (F-LS-ZOOM-CONS, also reaches bfgs) and RunMin (F-NEWTON-MIN-CONS-LINE). "
           "Round 7: the statement 'Norm(g) < eps bounds every coordinate, for every length' and the fixed-point / closed-form "
           "statements for saga's built-in Tikhonov and L1 options are over R only (binary64: replayed, dimensions 1..12 resp. "
           "the sagareg stream); L2Regularization's group soft threshold has no fixed-point theorem; that saga CONVERGES to the "
           "regularised minimiser is not proved: the hunt checks it on well conditioned least squares (KKT residual at the "
           "converged return, closed form in 1-D, and bit-equality with the explicit ProximalOperator twin). "
           "All theorems are fuel-relative (they hold for every fuel and say "
           "nothing when the model returns OutOfFuel): loops WITHOUT an iteration cap in the code are listed in "
           "'uncapped_loops' (hang findings are C20's).")

UNCAPPED = [
    "gradientDescent.go: the main loop (no MaxIterations option at all; ends only by stop test, hook, error or the NaN panic)",
    "rprop.go / rprop_dense.go: the inner 'for { update x; evaluate; shrink step }' retry loop (MaxIterations caps only the outer loop)",
    "lineSearch.go: 'for !constraints(alpha_j) { alpha_j *= 0.5 }' (ends only when the callback accepts; alpha_j = 0 is submitted forever if it is rejected)",
    "newton.go: the back-tracking loops of newton_root and newton_min (end by acceptance or when x1 - t1 == x1: bounded in binary64, unbounded over the reals)",
    "newton.go RunMin / bfgs.go: inherit lineSearch's constraint loop through constraints_line",
    "capped: rprop outer loop, adam, adam_dense, bfgs, newton outer loops (MaxIterations), lineSearch / zoom (MaxEval), saga (epochs), blahut (steps)",
]

# sites of the hunt's property oracle that are known findings of the unchanged library
# (each has a `_refuted` lemma on the model and a witness in corpus/C07)
def known_sites():
    out = {}
    for f in vlib.known_findings("C07"):
        m = f.get("match", {})
        if m.get("site"):
            out[m["site"]] = f
        for st in m.get("sites", []):
            out[st] = f
    # proposed entries travel with the property until the integrator merges them
    p = os.path.join(vlib.ROOT, "corpus/C07/known_findings_proposed.json")
    if os.path.exists(p):
        for f in json.load(open(p)).get("findings", []):
            m = f.get("match", {})
            if m.get("site"):
                out.setdefault(m["site"], f)
            for st in m.get("sites", []):
                out.setdefault(st, f)
    return out


def is_known(finding, known):
    f = known.get(finding["site"])
    if not f:
        return None
    m = f.get("match", {})
    if m.get("routine") and finding["spec"].get("routine") != m["routine"]:
        return None
    if m.get("routine_prefix") and not str(finding["spec"].get("routine", "")).startswith(m["routine_prefix"]):
        return None
    if m.get("requires_constraints") and not finding["spec"].get("cons"):
        return None
    return f


def corr(ctx, binary, n):
    rc, out = vlib.run_harness(ctx, binary, n, extra=CORPUS)
    if rc != 0:
        ctx.violation({"obligation": "C07 harness run", "log": out[-3000:]}, False,
                      "harness failed on the implementation (crash while generating runs)")
        return []
    meta = json.load(open(os.path.join(ctx.dir, "cases.meta.json")))
    vlib.merge_meta(ctx, meta)
    shards = sorted(glob.glob(os.path.join(ctx.dir, "cases_*.v")), key=lambda p: int(p.rsplit("_", 1)[1][:-2]))
    res = vlib.eval_shards(shards)
    ctx.oblige(len(res), sum(1 for r in res if r["ok"]))
    cases = vlib.load_jsonl(os.path.join(ctx.dir, "cases.jsonl"))
    bad = []
    for k, r in enumerate(res):
        if r["ok"]:
            continue
        if r["mism"] is None:
            ctx.violation({"obligation": "correspondence shard " + os.path.basename(r["path"]),
                           "coqc_error": r["error"]}, False, "correspondence shard did not evaluate")
            continue
        for i in r["mism"]:
            bad.append(cases[k * meta["per_shard"] + i])
    ctx.log("correspondence: %d runs in %d shards, %d mismatching (%.0fs coqc)" % (
        len(cases), len(res), len(bad), sum(r["secs"] for r in res)))
    return bad


def hunt(ctx, binary, bad):
    rp = os.path.join(ctx.dir, "hunt_in.json")
    corpus = []
    if os.path.exists(CORPUS):
        for l in open(CORPUS):
            l = l.strip()
            if l and not l.startswith("#"):
                corpus.append({"spec": json.loads(l)})
    json.dump({"cases": bad[:40] + corpus}, open(rp, "w"))
    n = 3000 if ctx.tier == "quick" else 30000
    rc, out = vlib.sh([binary, "--extra", "hunt", "--replay", rp, "--n", str(n), "--seed", str(ctx.seed),
                       "--out", ctx.dir], timeout=900, env=vlib.go_env())
    hp = os.path.join(ctx.dir, "hunt.json")
    if rc == 0 and os.path.exists(hp):
        return json.load(open(hp))
    ctx.notes.append("hunt did not complete: " + out[-500:])
    return None


def run(ctx):
    ctx.cov["trusted_base"] = vlib.TRUSTED_BASE_COMMON + [
        "math.Pow(x, 2.0) equals the correctly rounded x*x unless the square is subnormal (runs with such gradients are dropped and counted)",
        "getDirection 'LDL': math.Pow(theta/beta, 2.0) of cholesky_ldl_forcepd is taken as the correctly rounded square (same assumption, via C05's model)",
        "the solver models imported from coq/C04/Model.v (m_inverse) and coq/C05/Model.v (cholesky_ldl_forcepd) are tied to gaussJordan / matrixInverse / cholesky by C04 / C05; here only through the direction getDirection returns",
        "axioms: see 'print_assumptions'"]
    ctx.cov["partial"] = PARTIAL
    ctx.cov["uncapped_loops"] = UNCAPPED
    ok, failures = vlib.proof_stage(ctx, TARGETS, PROPS)
    thms = vlib.theorem_names(os.path.join(vlib.COQ, "C07/Props.v"))
    if ok:
        ctx.cov["print_assumptions"] = vlib.print_assumptions("C07", [("C07.Props", thms)], ctx.dir)
    binary, blog = vlib.build_harness("c07")
    if binary is None:
        ctx.violation({"obligation": "build of harness/c07 against " + vlib.REPO, "log": blog[-3000:]}, False,
                      "tie lost: the C07 harness no longer builds against the library")
        return
    n = 780 if ctx.tier == "quick" else 5200   # of 13 runs: 3 newton_root, 2 newton_min, 2 saga, 1 blahut, 5 round-1 routines + adam.Run; the harness appends the round-7 streams (60 normdim + 24 sagareg; x4 in thorough)
    bad = corr(ctx, binary, n)
    known = known_sites()
    h = hunt(ctx, binary, bad)
    unknown = []
    if h:
        ctx.cov["hunt"] = {"runs": h.get("runs"), "checked": h.get("checked"),
                           "sites": {f["site"]: f["count"] for f in h.get("findings") or []}}
        for f in h.get("findings") or []:
            kf = is_known(f, known)
            if kf:
                ctx.known_finding(kf["id"], "%s [site %s, %d runs] witness: %s" % (kf["what"], f["site"], f["count"], f["failure"][:300]))
            else:
                unknown.append(f)
    broken = [f["target"] for f in failures] + (["correspondence C07.Corr.check"] if bad else [])
    for f in unknown:
        ctx.violation({"case": {"spec": f["spec"]}, "site": f["site"], "failure": f["failure"], "broken": broken}, True,
                      "optimizer violates its stopping/hook/constraint contract: %s: %s" % (f["site"], f["failure"][:400]))
    if (bad or not ok) and not unknown:
        for f in failures:
            ctx.violation({"obligation": f["target"], "lemma": f["lemma"], "errors": f["errors"]}, False,
                          "proof obligation no longer checks: %s %s" % (f["target"], f["lemma"] or ""))
        if bad:
            ctx.violation({"case": bad[0], "obligation": "correspondence C07.Corr.check (oracle replay: model vs implementation)",
                           "mismatching": len(bad)},
                          False, "model and implementation disagree on %d logged runs (first: %s), but no run violating the property itself was found"
                          % (len(bad), bad[0]["spec"]["routine"]))


def replay(ctx, path):
    rp = json.load(open(path))
    binary, blog = vlib.build_harness("c07")
    if binary is None:
        print(blog); return 2
    if "case" not in rp or "spec" not in rp.get("case", {}):
        print("replay names a broken obligation, not an input: %s" % rp.get("obligation"))
        ok, failures = vlib.proof_stage(ctx, TARGETS, PROPS)
        return 0 if ok else 1
    rc, out = vlib.sh([binary, "--replay", path, "--out", ctx.dir], env=vlib.go_env())
    res = vlib.eval_shards(sorted(glob.glob(os.path.join(ctx.dir, "replay_*.v"))))
    agree = all(r["ok"] for r in res)
    o = json.load(open(os.path.join(ctx.dir, "replay_oracle.json")))
    known = known_sites()
    fails = [f for f in o.get("failures") or [] if not is_known({"site": f["site"], "spec": rp["case"]["spec"]}, known)]
    print("model/implementation agree on the replayed run: %s" % agree)
    print("property oracle on the implementation: %s" % (
        "; ".join("%s: %s" % (f["site"], f["what"]) for f in o.get("failures") or []) or "holds"))
    return 1 if (fails or not agree) else 0
