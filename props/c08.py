"""C08 — results do not depend on the receiver aliasing an operand."""
import glob, json, os, re
import vlib

TARGETS = ["Base/Corr.vo", "Base/Fl.vo", "Base/Num.vo", "C01/Model.vo", "C01/ModelR.vo", "C01/Corr.vo",
           "C10/Gen.vo", "C10/Model.vo",
           "C08/Spec.vo", "C08/Model.vo", "C08/Corr.vo", "C08/ProofsList.vo", "C08/ProofsComb.vo", "C08/ProofsScalar.vo",
           "C08/ProofsSet.vo", "C08/ProofsComposite.vo", "C08/ProofsRefuted.vo", "C08/ProofsMat.vo", "C08/ProofsVec.vo",
           "C08/ProofsReduce.vo",
           "C08/SpecTest.vo", "C08/Props.vo",
           # sparse containers (round 3): shared models C11.Model, C03.Model, C03.ModelM; C03's theorems are cited
           "C11/Model.vo", "C03/Model.vo", "C03/ModelM.vo", "C03/PropsR2.vo", "C03/PropsM.vo",
           "C08/ModelS.vo", "C08/SpecS.vo", "C08/CorrS.vo", "C08/ProofsSparse.vo", "C08/ProofsSparseCite.vo",
           "C08/ProofsVecSelf.vo", "C08/PropsS.vo",
           # round 6: scalar operand = a cell of the receiver; receivers re-used over a history of orders
           "C08/ModelSc.vo", "C08/CorrSc.vo", "C08/ProofsSc.vo", "C08/ProofsScDense.vo", "C08/PropsSc.vo",
           "C08/ProofsHist.vo", "C08/PropsH.vo",
           # round 7: receiver a prefix slice of the vector operand (non-square matrix) in MdotV / VdotM
           "C08/ProofsVecPrefix.vo", "C08/PropsV.vo",
           # round 7: buffers tmp1 / tmp2 of the Real matrices through Slice / T / Tip / Clone histories
           "C08/ModelT.vo", "C08/CorrT.vo", "C08/ProofsT.vo", "C08/PropsT.vo"]
PROPS = ["C08/Props.v", "C08/PropsS.v", "C08/PropsSc.v", "C08/PropsH.v", "C08/PropsV.v", "C08/PropsT.v"]
PARTIAL = ("Scalar theorems are about the shared register-file model coq/C01/Model.v (HEAD incl. the fixes 7035970, 2fc8894, d9fca78), for "
           "an ARBITRARY carrier (floats included, no ring law used): closed form of both combinators for every receiver, receiver "
           "independence of every single-step operation (20 one-operand ops, Add Sub Mul Div Pow Sqrt) under the computed side condition "
           "[keeps]; Set/Min/Max/Abs/ABS with NO side condition beyond the storage invariant (Set never panics); the multi-step programs "
           "Logistic, Sigmoid, Log1pExp (ALL four branches, c = a included), LogAdd/LogSub with the receiver among the operands; Sigmoid "
           "with the scratch argument equal to the argument; reductions with the receiver among the elements: the call does not depend on "
           "the aliased element's value (all carriers) + binary64 witnesses (F-C08-REDUCE-ELEM). Refuted with witnesses: mixed-order alias "
           "(F-ALLOC). Matrix product on the heap/header model coq/C10/Model.v over Z, all well-formed views: r = a and r = b proved when the "
           "other factor lives in another backing array; r = a = b, r = b.T(), r = a.T(), r = a with b in the same backing array: refuted. "
           "Element-wise matrix ops: identical views / other arrays proved, transposed receiver refuted. Element-wise vector ops on slices: "
           "identical, left-shifted and disjoint receivers proved, right-shifted refuted. MdotV/VdotM: rejection proved, shifted overlap "
           "refuted. NOT proved (correspondence + hunt only): operands that are DISJOINT views of the receiver's backing array for the matrix "
           "operations (generated, replayed by the model, hunt classes must agree with a fresh receiver); derivatives carried by Real64/Real32 "
           "matrix products (hunt compares full jets of every entry for r = a, r = b, disjoint views; the Z model carries values only); Mnorm "
           "with the receiver at position (0,0) (safe: hunt class must agree) and the in-vector witnesses for Vnorm/SmoothMax/LogSmoothMax "
           "(bit-exact replay + hunt); LogAdd/LogSub with the scratch argument equal to an operand (exact rule in the harness: expected-safe "
           "classes must agree). SPARSE containers (PropsS.v, on the shared models C11.Model / C03.Model / C03.ModelM over Z, every element-type "
           "instance): sparse MdotV / VdotM with the receiver identical to the vector operand end in Panic for EVERY world (every stored pattern "
           "of r; the empty vector returns untouched) and the world reads as before (AT(0)'s insertion modelled); sparse MdotM with r = a or "
           "r = b: always Panic, world reads as before; the guard at cell level fires for every stored pattern, the non-inserting variant is "
           "refuted; dense MdotV / VdotM with identical vectors incl. the empty one; not-rejected aliasing of the sparse element-wise VECTOR ops "
           "and the sparse products on distinct operands = corollaries of C03's theorems. NOT proved for sparse: element-wise sparse MATRIX "
           "ops with the receiver among the operands (replayed for all stored patterns x nine element types + hunt), sparse vectors sharing "
           "cells through Slice/Append (C11-SLICEWT territory), derivatives of sparse Real containers. "
           "ROUND 6 (PropsSc.v, PropsH.v). Vector-scalar / matrix-scalar operations whose SCALAR operand is a cell (r.VmulS(a, r.At(k)), "
           "VADDS.., MaddS.., MADDS..): closed form of the re-reading loop for ANY carrier and ANY operation on an abstract memory "
           "(positions <= k see the old scalar, positions > k the value position k received, frame), the deep-copy call, and the EXACT "
           "condition under which both agree (iff; safe: last cell, fixed point, scalar outside the receiver); refuted by witness = "
           "known finding F-C08-SCALAR-ELEM; loop order is part of the statement. The dense VECTOR model replayed against Go is proved "
           "to BE the abstract loop on well-formed slices (operand = receiver or another backing array). NOT proved: the same link for "
           "dense MATRIX views (mEwS is tied by whole-heap replay on Slice/T views of all nine element types, generic and concrete, and "
           "evaluated as a witness) and for SPARSE containers (no Coq model of a scalar that is a sparse cell: hunt only — closed form "
           "evaluated with the library's scalar operations against the call on a detached copy of the scalar, all nine element types, "
           "+ - * /, incl. the joint-iterator quirk that a zero-valued scalar cell is dropped = detached); division is hunt-only (the "
           "replayed model is over Z). Real receivers re-used over a history of orders: Alloc / AllocForTwo leave the register untouched "
           "or make every guarded getter read zero (any carrier; stale Hessian slice kept at order 0 is modelled and never read); "
           "every step of generated histories (order 2 -> order 1 / 0 -> SetFloat64 / Reset -> in-place op with an order-2 operand, one "
           "or two rounds, Real64 / Real32, generic / concrete) is replayed bit-exactly from Go's raw pre-state; NOT proved: a "
           "history-level theorem that the in-place result equals the fresh-receiver result after Reset (single-step theorems + "
           "alloc lemma + hunt). "
           "ROUND 7 (PropsV.v, PropsT.v). Dense MdotV / VdotM whose receiver and vector operand start at the SAME CELL with ANY lengths "
           "(receiver a prefix slice of the operand or the reverse: non-square matrix): Panic or (a dimension is 0 and the heap is "
           "untouched), no hypothesis on shapes; the call IS guard-then-loop, and the unguarded loop is refuted on prefix slices "
           "(witnesses) — so a rejection that also asks for equal lengths is decided. Tied: the Float64 replay now also runs the concrete "
           "twins MDOTV / VDOTM and forced prefix patterns; the other eight dense element types x four functions are HUNT only "
           "(same-start must end in the API's explicit panic, a runtime error is not a rejection). Buffers tmp1 / tmp2 of the Real "
           "matrices (model ModelT.v: shape + len/cap through New / Slice / T / Tip / Clone): after ANY history the product's buffer "
           "slices succeed whether or not the receiver is a factor; Tip without the swap breaks it for every non-square fresh matrix. "
           "Tied by a trace stream (Real64 / Real32; shape and 'buffer holds the shape' per step, read by reflection). NOT modelled: the "
           "buffers' CONTENTS and sharing between views (T() views share the parent's buffers: two views used as receivers in one "
           "product cannot happen, but nested calls could interleave), Tip on sliced views (its cycle walk is C10's business; not "
           "generated), the product's VALUES after Tip (hunt: all nine element types, r = a and r = b, generic and concrete).")
CORPUS = os.path.join(vlib.ROOT, "corpus/C08/corpus.jsonl")

# hunt sites that are defects owned by other properties' known findings (referenced, not duplicated)
REFERENCED = {"alloc-diffN": "F-C20-DYADIC-ALLOC",
              # F-ALLOC inside the Real matrix product (accumulator of lower Order than the product term): see harness/c08/jets.go
              "MdotM-jets:mixed-order-entries": "F-ALLOC"}


# hunt sites that are not violations of the property: the implementation left the semantics the theorems are about
MODEL_DEVIATION_SITES = {"ScalarOp:behaves-as-deep-copy"}


def all_known():
    p = os.path.join(vlib.ROOT, "known_findings.json")
    fs = json.load(open(p)).get("findings", []) if os.path.exists(p) else []
    q = os.path.join(vlib.ROOT, "corpus/C08/known_findings_proposed.json")
    if os.path.exists(q):
        have = {f.get("id") for f in fs}
        fs = fs + [f for f in json.load(open(q)) if f.get("id") not in have]
    return fs


def is_known(hit):
    site = hit.get("site")
    fs = all_known()
    ref = REFERENCED.get(site)
    for f in fs:
        if ref and f.get("id") == ref:
            return f
        if f.get("property") == "C08" and site in f.get("match", {}).get("sites", []):
            return f
    return None


def corr(ctx, binary, n):
    rc, out = vlib.run_harness(ctx, binary, n, extra=CORPUS)
    if rc != 0:
        ctx.violation({"obligation": "C08 harness run", "log": out[-3000:]}, False,
                      "harness failed on the implementation (crash while generating cases)")
        return []
    bad = []
    for name in ("cases", "mat", "sp", "sc", "tmp"):
        meta = json.load(open(os.path.join(ctx.dir, name + ".meta.json")))
        meta["name"] = name
        vlib.merge_meta(ctx, meta)
        shards = sorted(glob.glob(os.path.join(ctx.dir, name + "_*.v")), key=lambda p: int(re.findall(r"_(\d+)\.v$", p)[0]))
        res = vlib.eval_shards(shards)
        ctx.oblige(len(res), sum(1 for r in res if r["ok"]))
        cases = vlib.load_jsonl(os.path.join(ctx.dir, name + ".jsonl"))
        nbad = 0
        for k, r in enumerate(res):
            if r["ok"]:
                continue
            if r["mism"] is None:
                ctx.violation({"obligation": "correspondence shard " + os.path.basename(r["path"]), "coqc_error": r["error"]},
                              False, "correspondence shard did not evaluate")
                continue
            for i in r["mism"]:
                bad.append(cases[k * meta["per_shard"] + i])
                nbad += 1
        ctx.log("correspondence %s: %d cases in %d shards, %d mismatching" % (name, len(cases), len(shards), nbad))
    return bad


def hunt(ctx, binary, n):
    rc, out = vlib.sh([binary, "--extra", "hunt", "--n", str(n), "--seed", str(ctx.seed), "--out", ctx.dir],
                      timeout=900, env=vlib.go_env())
    hp = os.path.join(ctx.dir, "hunt.json")
    if rc == 0 and os.path.exists(hp):
        return json.load(open(hp))
    ctx.violation({"obligation": "C08 hunt run", "log": out[-3000:]}, False, "hunt crashed")
    return {"found": False, "hits": [], "points": 0}


def describe(case):
    if case.get("scen"):
        s = case["scen"]
        return "%s %s" % (s["op"], s["pat"])
    if case.get("sc"):
        m = case["sc"]
        return "scalar operand is a cell: %s, %s, element type %s, operation %s, scalar selector %s (%s,%s)" % (
            "matrix" if m.get("mat") else "vector", m.get("pat"), m.get("typ"), m.get("op"), m.get("sw"), m.get("si"), m.get("sj"))
    if case.get("hist"):
        m = case["hist"]
        return "a step of the history %s (kind %s, N %s)" % (m.get("pat"), m.get("kind"), m.get("n"))
    if case.get("tmp"):
        m = case["tmp"]
        return "buffers tmp1/tmp2 of a %s matrix %sx%s after %s" % (m.get("kind"), m.get("N"), m.get("M"),
                                                                   ", ".join(o.get("op", "?") for o in m.get("ops", [])))
    if case.get("sp"):
        m = case["sp"]
        return "sparse stream: %s %s, %s receiver, element type %s, stored pattern %s" % (
            m.get("call"), m.get("pat"), m.get("recv"), m.get("type"), m.get("store"))
    m = case.get("mat") or {}
    return "%s %s" % (m.get("call"), m.get("pat"))


def run(ctx):
    ctx.cov["trusted_base"] = vlib.TRUSTED_BASE_COMMON + [
        "shared models coq/C01/Model.v (scalars) and coq/C10/Model.v + Gen.v (dense matrices; Gen.v is regenerated from /repo by property C10's check)",
        "libm / special-function results enter the bit-exact scalar replay as logged oracle values (what they compute is C01/C02/C13's business; alias independence does not depend on them)",
        "matrix/vector replay uses integer-valued entries (exact in binary64) against the Z instance of the model",
        "sparse containers: shared models coq/C11/Model.v, coq/C03/Model.v, coq/C03/ModelM.v (owned by C11 / C03; their theorems C03.PropsR2 / C03.PropsM are cited by C08/ProofsSparseCite.v); private stored pattern read through the hook VerifC11Dump (/repo/verif_c11.go)",
        "axioms: scalar theorems are closed under the global context (no axioms) except reduction_overwrites_receiver_element (functional extensionality, for equality of register files); the refuted / regression lemmas over R use Coq's Reals; the binary64 witnesses use primitive floats"]
    ctx.cov["partial"] = PARTIAL
    ok, failures = vlib.proof_stage(ctx, TARGETS, PROPS)
    thms = vlib.theorem_names(os.path.join(vlib.COQ, "C08/Props.v"))
    if ok and ctx.tier == "thorough":
        thms_s = vlib.theorem_names(os.path.join(vlib.COQ, "C08/PropsS.v"))
        ctx.cov["print_assumptions"] = vlib.print_assumptions("C08", [("C08.Props", thms), ("C08.PropsS", thms_s)], ctx.dir)
    binary, blog = vlib.build_harness("c08")
    if binary is None:
        ctx.violation({"obligation": "build of harness/c08 against the library", "log": blog[-3000:]}, False,
                      "tie lost: the C08 harness no longer builds against the library")
        return
    quick = ctx.tier == "quick"
    bad = corr(ctx, binary, 400 if quick else 3000)
    h = hunt(ctx, binary, 300 if quick else 3000)
    ctx.cov["hunt_points"] = h.get("points", 0)
    ctx.cov["hunt_aliased_points"] = h.get("aliased_points", 0)
    ctx.cov["hunt_by_site"] = h.get("by_site", {})
    ctx.cov["scratch_argument_is_operand_unsafe"] = h.get("tmp_alias_unsafe", {})
    unknown = []
    seen_kf = set()
    model_dev = []   # inputs on which the implementation left the MODELLED semantics without violating the property
    for hit in h.get("hits", []):
        if hit.get("site") in MODEL_DEVIATION_SITES:
            model_dev.append(hit)
            continue
        kf = is_known(hit)
        if kf:
            if kf["id"] not in seen_kf:
                seen_kf.add(kf["id"])
                ctx.known_finding(kf["id"], kf["what"])
        else:
            unknown.append(hit)
    for hit in unknown[:5]:
        ctx.violation({"hunt": hit, "failure": hit["failure"],
                       "broken": [f["target"] for f in failures] + (["correspondence (model vs implementation)"] if bad else [])},
                      True, "result depends on the receiver aliasing an operand (%s): %s" % (hit["site"], hit["failure"]))
    if not unknown:
        for f in failures:
            ctx.violation({"obligation": f["target"], "lemma": f["lemma"], "errors": f["errors"]}, False,
                          "proof obligation no longer checks: %s %s" % (f["target"], f["lemma"] or ""))
        if bad and model_dev:
            hit = model_dev[0]
            ctx.violation({"hunt": hit, "failure": hit["failure"], "case": bad[0], "n_mismatching": len(bad),
                           "obligation": "correspondence (model vs implementation) + theorems of coq/C08/PropsSc.v about the modelled semantics"},
                          True, "model and implementation disagree on %d case(s); concrete input: %s" % (len(bad), hit["failure"]))
        elif bad:
            ctx.violation({"case": bad[0], "n_mismatching": len(bad),
                           "obligation": "correspondence C01.Corr.check / C08.Corr.mcheck / C08.CorrS.scheck / C08.CorrSc.sccheck / C08.CorrT.tcheck (model vs implementation)"},
                          False, "model and implementation disagree on %d case(s) (first: %s), but no alias pattern violating the property was found"
                          % (len(bad), describe(bad[0])))


def replay(ctx, path):
    rp = json.load(open(path))
    binary, blog = vlib.build_harness("c08")
    if binary is None:
        print(blog)
        return 2
    if "case" not in rp and "hunt" not in rp:
        print("replay names a broken obligation, not an input: %s" % rp.get("obligation"))
        ok, failures = vlib.proof_stage(ctx, TARGETS, PROPS)
        return 0 if ok else 1
    vlib.sh([binary, "--replay", path, "--out", ctx.dir], env=vlib.go_env())
    res = json.load(open(os.path.join(ctx.dir, "replay_result.json")))
    fail = False
    if res.get("case_reexecuted"):
        vlib.coq_make(TARGETS)
        ev = vlib.eval_shards(sorted(glob.glob(os.path.join(ctx.dir, "replay_*.v"))))
        agree = all(r["ok"] for r in ev)
        print("model/implementation agree on the replayed case: %s" % agree)
        fail = fail or not agree
    if "hunt_still_fails" in res:
        print("aliased call vs fresh receiver on the implementation: %s" % (res.get("failure") if res["hunt_still_fails"] else "agree"))
        fail = fail or res["hunt_still_fails"]
    return 1 if fail else 0
