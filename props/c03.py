"""C03 — vector results do not depend on dense or sparse storage."""
import glob, json, os
import vlib

TARGETS = ["Base/Corr.vo", "C11/Model.vo", "C11/Spec.vo", "C11/ProofsMap.vo", "C11/ProofsIter.vo", "C11/ProofsInv.vo",
           "C11/ProofsRef.vo", "C11/Dense.vo", "C11/Props.vo",
           "C03/Model.vo", "C03/Corr.vo", "C03/Spec.vo", "C03/SpecTest.vo", "C03/ProofsDense.vo",
           "C03/ProofsSem.vo", "C03/ProofsJoint.vo", "C03/ProofsConv.vo", "C03/ProofsOps.vo",
           "C03/ModelM.vo", "C03/CorrM.vo", "C03/ProofsM.vo", "C03/Props.vo",
           # round 2
           "C03/ProofsAlias.vo", "C03/ProofsAlias2.vo", "C03/ProofsDiv.vo", "C03/SpecH.vo", "C03/ProofsH.vo", "C03/PropsR2.vo",
           "C03/SpecM.vo", "C03/ProofsMBase.vo", "C03/ProofsMDense.vo", "C03/ProofsMIter.vo", "C03/ProofsMJ.vo",
           "C03/ProofsMLoops.vo", "C03/ProofsMSet.vo", "C03/ProofsMDot.vo", "C03/ProofsMDot2.vo", "C03/ProofsMInd.vo",
           "C03/PropsM.vo",
           # round 3
           "C03/ProofsMJ2.vo", "C03/PropsR3.vo",
           # round 6: read-only sparse vectors, views, random-access cache
           "C03/ModelC.vo", "C03/CorrC.vo", "C03/SpecC.vo", "C03/ProofsC.vo", "C03/ProofsC2.vo", "C03/PropsC.vo",
           # round 7: Reset under live views and handles
           "C03/ProofsR7.vo", "C03/PropsR7.vo"]
PROPS = ["C03/Props.v", "C03/PropsR2.v", "C03/PropsM.v", "C03/PropsR3.v", "C03/PropsC.v", "C03/PropsR7.v"]
PARTIAL = ("Proved in Coq, for ALL worlds/vectors/matrices/operands (no bounds), about the hand-written models coq/C03/Model.v "
           "(vectors) and coq/C03/ModelM.v (whole matrices: header + one sparse vector / row-major list), both on top of the "
           "shared sparse-vector model coq/C11/Model.v (heap of cells + value map + ordered key set standing for the AVL index, "
           "justified by C19). Carrier Z (exact arithmetic; the element types' rounding is abstracted: sums of products are "
           "re-associated freely in the MdotM/MdotV/VdotM theorems): division is Go's truncating integer division, exact for the "
           "float types only where the divisor divides the dividend (what the harness generates); x/0 on the float types is "
           "proved on the carrier extended by the codes of +Inf/-Inf/NaN for FINITE operands. NOT covered by a theorem: "
           "operands that are themselves non-finite and the derivatives of Real elements (Go-level differential run only, "
           "harness/c03/special.go: five classes of storage/prior-content dependence reproduce on the unchanged library and are "
           "reported as KNOWN-FINDING; an element of value 0 with a non-zero derivative — not null, which the Z carrier cannot "
           "express — is covered there only: regression cases for the matrix joint iterators' Ok() flag, e83c5e9). The public "
           "JointIterator theorem is for a sparse receiver matrix with an operand of the same shape. Matrix "
           "theorems are for whole matrices only (views/transposes: C10) and for a sparse receiver distinct from its operands "
           "(the code panics for MdotM r = a / r = b; for the element-wise matrix operations aliasing is tied by the "
           "correspondence only); dense r.MdotM(r, r) is the known finding F-MDOTM-RR (modelled, refuted, excluded by "
           "hypothesis); MdotM requires non-empty matrices (storageLocation() panics otherwise, dense and sparse alike) and "
           "MdotV/VdotM a non-empty inner dimension (C03-MDOTV-EMPTY: the receiver keeps its prior content). Whole-history "
           "theorem: vector operations + C11's 25 container operations; matrix operations are per-call theorems whose "
           "hypothesis (GoodM) is re-established by each of them for its receiver. abs(Clone) is C11's theorem; VdivV on a "
           "float type with a zero divisor AND a sparse receiver among its operands has no theorem (tied only). The concrete "
           "capital twins VADDV.. are C09's. Equals with epsilon <= 0 is outside the statement. "
           "ROUND 6 - read-only sparse vectors (SparseConst<T>Vector, coq/C03/ModelC.v, a separate world of const objects, "
           "dense buffers and dense ConstSlice views): proved for ALL inputs: the safe constructor (any order of distinct "
           "indices < n: sorted, zeros dropped, every element preserved; an index >= n rejected), <T>At through the lazily "
           "built cache = the element for every cache state and every index with a frame clause, sort.SearchInts as coded "
           "(binary search) on sorted slices, ConstSlice i <= j both branches (dimension, own empty cache, ascending again, "
           "element t = parent's element i + t), whole read sequences (= value list), view/parent access order, the plain "
           "iterator.  NOT proved, tied by the exact correspondence and judged by the plain-list oracle only: the const joint "
           "iterator and const Equals (modelled as coded), AsDense<T>Vector(const) by iteration (cfill), AsSparseConst, the "
           "dense receivers' loops with const operands / dense views at world level (the per-read theorem is proved, the "
           "loop-level composition is not), VdotV; the unsafe constructor with slices of different length, duplicate indices "
           "(sort.Sort is not stable) and negative indices are outside (never generated).  MUTABLE sparse receivers and "
           "matrix products with const / view / sparse-slice operands are NOT in a Coq model (C11's operand type has no such "
           "case): Go-level differential stream only (harness/c03/conststream.go: every receiver kind x operand container "
           "kind against the all-fresh-dense run, incl. the receiver itself as operand and dense / sparse matrix receivers "
           "with sparse operands).  ConstIteratorFrom(i) = exactly the stored entries with index >= i for every i (proved; "
           "the restart at the first entry, C03-CONST-ITERFROM-WRAP, was repaired by 1e92a33 and is a regression case of "
           "the corpus now).  Index reads outside [0, n) return 0 on const vectors "
           "(no guard; dense and sparse vectors panic): modelled, not judged (guards are C20's).  "
           "ROUND 7 - Reset under live views and handles (coq/C03/PropsR7.v, on C11's heap-of-cells model of reset and "
           "SLICE and the VReset step of coq/C03/Model.v): proved for ALL heaps/vectors/windows/indices: Reset zeroes every "
           "stored scalar and no other cell, changes no map / index / dimension of any vector (handles and views stay "
           "attached), SLICE(a,b) holds cells of its parent only (views of views too), a view taken before the Reset reads 0 "
           "everywhere afterwards (= a window of the dense twin's zeroed backing array), a write through a handle taken "
           "before the Reset is read back through the receiver and every view holding that cell, vectors sharing no cell "
           "are unchanged.  NOT proved / only Go-level (harness/c03/viewalias.go, all-dense vs all-sparse vs "
           "all-sparse-with-stored-zeros programs with generator-computed expectations): the same for sparse MATRICES "
           "(Reset by iterator, ConstRow, T(), matrix Slice, AsVector), r.Set(a) / element-wise operations whose operand IS "
           "the receiver or a full-range Slice/ConstSlice view of it (a.Set(a) has no theorem: own_map_spec requires an "
           "operand that does not read the receiver; aliased matrix Set is tied by the correspondence + this stream), "
           "partially overlapping windows (never generated: the result is iteration-order dependent by design).  The C03 "
           "vector correspondence has no Slice operation (C11's has); sparse views are references for EXISTING entries "
           "only (C11-SLICEWT, F-SPT-REF) and the sparse iterators purge zero entries (C03-ZERO-ENTRY-PURGE, new known "
           "finding, probed on every run): the stream creates handles before views, never creates entries afterwards, "
           "takes matrix handles on non-zero entries only and uses views as operands last.")
KNOWN_PROPOSED = os.path.join(vlib.ROOT, "corpus/C03/known_findings_proposed.json")
CORPUS = os.path.join(vlib.ROOT, "corpus/C03/corpus.jsonl")
SPECIAL_CORPUS = os.path.join(vlib.ROOT, "corpus/C03/special.jsonl")
VSEQ_CORPUS = os.path.join(vlib.ROOT, "corpus/C03/vseq.jsonl")


def known_list():
    out = list(vlib.known_findings("C03"))
    ids = {f["id"] for f in out}
    if os.path.exists(KNOWN_PROPOSED):
        for f in json.load(open(KNOWN_PROPOSED)):
            if f.get("property") == "C03" and f["id"] not in ids:
                out.append(f)
    # referenced, not duplicated: dense r.MdotM(r, r) is listed under C08
    for f in vlib.known_findings("C08"):
        if f["id"] == "F-MDOTM-RR":
            out.append(f)
    return out


def corr(ctx, binary, n):
    rc, out = vlib.run_harness(ctx, binary, n, extra=CORPUS)
    if rc != 0:
        ctx.violation({"obligation": "C03 harness run", "log": out[-3000:]}, False,
                      "harness failed on the implementation (crash while generating histories)")
        return {"cases": [], "mcases": [], "ccases": []}
    bad = {"cases": [], "mcases": [], "ccases": []}
    total = 0
    for stem in ("cases", "mcases", "ccases"):
        mp = os.path.join(ctx.dir, stem + ".meta.json")
        if not os.path.exists(mp):
            continue
        meta = json.load(open(mp))
        vlib.merge_meta(ctx, meta)
        shards = sorted(glob.glob(os.path.join(ctx.dir, stem + "_*.v")),
                        key=lambda p: int(os.path.basename(p)[len(stem) + 1:-2]))
        res = vlib.eval_shards(shards)
        ctx.oblige(len(res), sum(1 for r in res if r["ok"]))
        cases = vlib.load_jsonl(os.path.join(ctx.dir, stem + ".jsonl"))
        total += len(cases)
        for k, r in enumerate(res):
            if r["ok"]:
                continue
            if r["mism"] is None:
                ctx.violation({"obligation": "correspondence shard " + os.path.basename(r["path"]),
                               "coqc_error": r["error"]}, False, "correspondence shard did not evaluate")
                continue
            for i in r["mism"]:
                bad[stem].append(cases[k * meta["per_shard"] + i])
        ctx.log("correspondence (%s): %d histories in %d shards (%.0fs coqc), %d mismatching" % (
            {"cases": "vectors", "mcases": "matrices", "ccases": "read-only sparse vectors"}[stem], len(cases), len(res), sum(r["secs"] for r in res),
            len(bad[stem])))
    return bad


def hunt(ctx, binary, bad, broken):
    """Search for a history on which the property itself fails on the implementation: the mismatching
    histories first, then (only when something broke, or always in the thorough tier) all zero patterns
    for small dimensions x every storage combination, then random histories."""
    rp = os.path.join(ctx.dir, "hunt_in.json")
    json.dump({"cases": bad["cases"][:50], "mcases": bad["mcases"][:50]}, open(rp, "w"))
    n = 2000 if ctx.tier == "quick" else 20000
    rc, out = vlib.sh([binary, "--extra", "hunt", "--replay", rp, "--n", str(n), "--seed", str(ctx.seed),
                       "--tier", ctx.tier, "--out", ctx.dir], timeout=1500, env=vlib.go_env())
    hp = os.path.join(ctx.dir, "hunt.json")
    if rc == 0 and os.path.exists(hp):
        h = json.load(open(hp))
        ex = ctx.cov.setdefault("extra", {})
        ex["hunt_histories_tried"] = h.get("tried")
        ex["hunt_exhaustive_zero_patterns"] = {"histories": h.get("exhaustive_tried"), "max_dim": h.get("exhaustive_max_dim"),
                                               "exhaustive": True}
        if h.get("found"):
            return h
    elif rc != 0:
        ctx.notes.append("hunt run failed: " + out[-500:])
    return None


def chunt(ctx, binary, bad):
    """Read-only sparse vectors, views and every operand container kind: plain-list oracle on the implementation
    (harness/c03/constoracle.go) + the operand-container differential stream (conststream.go).  Returns True
    when a failing input was reported."""
    rp = os.path.join(ctx.dir, "chunt_in.json")
    json.dump({"ccases": [dict(c, outs=None) for c in bad.get("ccases", [])[:50]]}, open(rp, "w"))
    n = 600 if ctx.tier == "quick" else 6000
    rc, out = vlib.sh([binary, "--extra", "chunt", "--replay", rp, "--n", str(n), "--seed", str(ctx.seed),
                       "--tier", ctx.tier, "--out", ctx.dir], timeout=1500, env=vlib.go_env())
    hp = os.path.join(ctx.dir, "chunt.json")
    if rc != 0 or not os.path.exists(hp):
        ctx.violation({"obligation": "C03 const-vector oracle run", "log": out[-3000:]}, False,
                      "harness failed on the implementation (crash in the const-vector oracle / operand stream)")
        return False
    h = json.load(open(hp))
    st = h.get("stream") or {}
    ctx.cov.setdefault("extra", {})["const_vectors"] = {
        "oracle_histories_tried": h.get("tried"),
        "exhaustive_zero_patterns_x_slice_ranges_x_access_orders": {"histories": h.get("exhaustive_tried"),
                                                                    "max_dim": h.get("exhaustive_max_dim"), "exhaustive": True},
        "operand_stream": {k: st.get(k) for k in ("trials", "runs", "elements_compared", "per_op", "per_operand_kind",
                                                  "per_receiver_kind")},
        "known": h.get("known")}
    ctx.log("const vectors: %s histories judged by the plain-list oracle (%s exhaustive, dims <= %s); operand stream: %s runs, "
            "%s elements compared" % (h.get("tried"), h.get("exhaustive_tried"), h.get("exhaustive_max_dim"),
                                      st.get("runs"), st.get("elements_compared")))
    listed = {f["id"]: f for f in known_list()}
    for fid, wit in sorted((h.get("known") or {}).items()):
        what = listed[fid]["what"] if fid in listed else "(class matched in harness/c03/constoracle.go, not listed yet)"
        ctx.known_finding(fid, what + " | witness: " + wit)
    for fid in sorted(listed):
        if listed[fid].get("match", {}).get("site", "").startswith("chunt:") and fid not in (h.get("known") or {}):
            ctx.notes.append("known finding %s no longer reproduces in the const-vector oracle run" % fid)
    if h.get("found") and h.get("ccase"):
        ctx.violation({"ccase": h["ccase"], "failure": h["failure"], "at": h["at"]}, True,
                      "result depends on storage (read-only sparse vector / view / access order): " + h["failure"])
        return True
    if st.get("found"):
        ctx.violation({"stream": st["witness"], "failure": st["failure"]}, True,
                      "result depends on the operand container: " + st["failure"])
        return True
    return False


def vhunt(ctx, binary):
    """Round 7: multi-step view / handle / alias programs (harness/c03/viewalias.go), all-dense vs all-sparse vs
    all-sparse-with-stored-zeros: r.Set(a) and element-wise operations whose operand is the receiver or a
    full-range Slice/ConstSlice view of it; handles and views taken BEFORE a Reset, then read / used as operands /
    written through.  Returns True when a failing input was reported."""
    n = 1200 if ctx.tier == "quick" else 12000
    rc, out = vlib.sh([binary, "--extra", "vhunt:" + VSEQ_CORPUS, "--n", str(n), "--seed", str(ctx.seed), "--tier", ctx.tier,
                       "--out", ctx.dir], timeout=1500, env=vlib.go_env())
    hp = os.path.join(ctx.dir, "vhunt.json")
    if rc != 0 or not os.path.exists(hp):
        ctx.violation({"obligation": "C03 view/alias stream run", "log": out[-3000:]}, False,
                      "harness failed on the implementation (crash in the view / handle / alias stream)")
        return False
    h = json.load(open(hp))
    ctx.cov.setdefault("extra", {})["view_alias_stream"] = {k: h.get(k) for k in (
        "tried", "runs", "elements_compared", "per_class", "rule")}
    ctx.log("view/alias stream: %s programs x 3 storages, %s elements compared (%s)" % (
        h.get("tried"), h.get("elements_compared"), h.get("per_class")))
    listed = {f["id"]: f for f in known_list()}
    kn = h.get("known") or {}
    if kn:
        fid = "C03-ZERO-ENTRY-PURGE"
        what = listed[fid]["what"] if fid in listed else "(class matched in harness/c03/viewalias.go, not listed yet)"
        ctx.known_finding(fid, what + " | witness: " + " || ".join(kn[k] for k in sorted(kn)))
    elif "C03-ZERO-ENTRY-PURGE" in listed:
        ctx.notes.append("known finding C03-ZERO-ENTRY-PURGE no longer reproduces in the view/alias run")
    if h.get("found"):
        ctx.violation({"vseq": h["vseq"], "failure": h["failure"]}, True,
                      "result depends on storage (aliased operand / view or handle held across Reset): " + h["failure"])
        return True
    return False


def known(ctx, binary):
    """Replay the witnesses of the recorded findings on the implementation."""
    rc, out = vlib.sh([binary, "--extra", "known", "--out", ctx.dir], timeout=300, env=vlib.go_env())
    kp = os.path.join(ctx.dir, "known.json")
    if rc != 0 or not os.path.exists(kp):
        return
    seen = {k["id"]: k for k in (json.load(open(kp)) or [])}
    for f in known_list():
        k = seen.get(f["id"])
        if k and k["confirmed"]:
            ctx.known_finding(f["id"], f["what"])
        elif k:
            ctx.notes.append("known finding %s no longer reproduces: %s" % (f["id"], k["detail"]))


def special(ctx, binary):
    """Go-level differential run on non-finite values and Real derivatives (harness/c03/special.go): every
    storage combination against the all-dense run.  Differences matched narrowly by a recorded class are
    printed as KNOWN-FINDING (once per class), everything else is a VIOLATION with a replayable witness."""
    n = 3000 if ctx.tier == "quick" else 30000
    rc, out = vlib.run_harness(ctx, binary, n, extra="special:" + SPECIAL_CORPUS, timeout=600)
    sp = os.path.join(ctx.dir, "special.json")
    if rc != 0 or not os.path.exists(sp):
        ctx.violation({"obligation": "C03 special run", "log": out[-3000:]}, False,
                      "harness failed on the implementation (crash in the special-value / derivative differential run)")
        return
    r = json.load(open(sp))
    probes = r.get("probes") or []
    ctx.cov.setdefault("extra", {})["special"] = {
        "draws": r["draws"], "corpus_cases": r["histogram"].get("corpus", 0), "runs": r["runs"],
        "comparisons": r["comparisons"], "elements_compared": r["elements_compared"],
        "per_op": r["per_op"], "per_type": r["per_type"], "histogram": r["histogram"],
        "panic_outcomes": r["panic_outcomes"],
        "sign_of_zero_differences_not_judged": r["sign_of_zero_differences_not_judged"],
        "order_or_N_differences_not_judged": r["order_or_N_differences_not_judged"],
        "known_counts": r["known_counts"],
        "known_witnesses": {k: v["text"] for k, v in (r.get("known") or {}).items()},
        "failures": r["failure_count"], "failure_classes": r.get("failure_classes") or {},
        "probes": [{"q": p["question"], "observed": p["observed"]} for p in probes], "rule": r["rule"]}
    ctx.log("special: %d draws, %d comparisons, %d known-class differences in %d classes, %d unmatched" % (
        r["draws"], r["comparisons"], sum(r["known_counts"].values()), len(r["known_counts"]), r["failure_count"]))
    listed = {f["id"]: f for f in known_list()}
    hit = dict(r["known_counts"])
    if any(p["finding_reproduces"] for p in probes if p["id"] == "C03-MDOTV-EMPTY"):
        hit.setdefault("C03-MDOTV-EMPTY", 1)
    for fid in sorted(hit):
        w = (r.get("known") or {}).get(fid)
        what = listed[fid]["what"] if fid in listed else "(class matched in harness/c03/special.go, not listed yet)"
        ctx.known_finding(fid, what + (" | witness: " + w["text"] if w else ""))
    for fid in sorted(listed):
        if listed[fid].get("match", {}).get("site", "").startswith("special:") and fid not in hit:
            ctx.notes.append("known finding %s no longer reproduces in the special run" % fid)
    seen = set()
    for f in r["failures"]:
        key = (f["special"]["op"], f["diffs"][0]["obj"] if f["diffs"] else "", f["special"]["type"])
        if key in seen or len(seen) >= 3:
            continue
        seen.add(key)
        ctx.violation({"special": f["special"], "diffs": f["diffs"], "text": f["text"]}, True,
                      "result depends on storage (non-finite values / derivatives): " + f["text"])


def run(ctx):
    ctx.cov["trusted_base"] = vlib.TRUSTED_BASE_COMMON + [
        "hook /repo/verif_c11.go (C11's read-only dump of the private map and AVL index keys of sparse vectors)",
        "shared sparse-vector model coq/C11/Model.v (the AVL index abstracted to its ordered key set, C19)",
        "package reflect reading the private fields indices/values/idxmap of SparseConst<T>Vector (read-only, no hook)",
        "const vectors: the parallel slices indices/values modelled as one list of pairs (invariant: equal lengths)",
        "axioms: see 'print_assumptions' (expected: closed under the global context)"]
    ctx.cov["partial"] = PARTIAL
    ok, failures = vlib.proof_stage(ctx, TARGETS, PROPS)
    mods = [("C03.Props", vlib.theorem_names(os.path.join(vlib.COQ, "C03/Props.v"))),
            ("C03.PropsR2", vlib.theorem_names(os.path.join(vlib.COQ, "C03/PropsR2.v"))),
            ("C03.PropsM", vlib.theorem_names(os.path.join(vlib.COQ, "C03/PropsM.v"))),
            ("C03.PropsR3", vlib.theorem_names(os.path.join(vlib.COQ, "C03/PropsR3.v"))),
            ("C03.PropsC", vlib.theorem_names(os.path.join(vlib.COQ, "C03/PropsC.v"))),
            ("C03.PropsR7", vlib.theorem_names(os.path.join(vlib.COQ, "C03/PropsR7.v")))]
    ctx.cov["theorems"] = [t for _, ths in mods for t in ths]
    if ok:
        ctx.cov["print_assumptions"] = vlib.print_assumptions("C03", mods, ctx.dir)
    binary, blog = vlib.build_harness("c03")
    if binary is None:
        ctx.violation({"obligation": "build of harness/c03 against the library", "log": blog[-3000:]}, False,
                      "tie lost: the C03 harness no longer builds against the library")
        return
    n = 360 if ctx.tier == "quick" else 3600
    bad = corr(ctx, binary, n)
    nbad = len(bad["cases"]) + len(bad["mcases"]) if bad else 0
    broken = [f["target"] for f in failures] + (["correspondence C03.Corr.check"] if nbad else [])
    known(ctx, binary)
    special(ctx, binary)
    cfound = chunt(ctx, binary, bad)
    vfound = vhunt(ctx, binary)
    if bad.get("ccases") and not cfound:
        ctx.violation({"ccase": bad["ccases"][0],
                       "obligation": "correspondence C03.CorrC.checkc (model vs implementation, read-only sparse vectors)"},
                      False, "model and implementation disagree on a const-vector history (%d of them), but no history "
                      "violating the property itself was found" % len(bad["ccases"]))
    h0 = hunt(ctx, binary, bad, broken)
    if h0:
        # (the oracle does not judge the RESULT of Equals calls with epsilon <= 0: outside the statement)
        key = "mcase" if h0.get("mcase") else "case"
        ctx.violation({key: h0[key], "failure": h0["failure"], "at": h0["at"], "broken": broken}, True,
                      "result depends on storage / prior receiver content: " + h0["failure"])
        return
    for f in failures:
        ctx.violation({"obligation": f["target"], "lemma": f["lemma"], "errors": f["errors"]}, False,
                      "proof obligation no longer checks: %s %s" % (f["target"], f["lemma"] or ""))
    if nbad:
        first = {"case": bad["cases"][0]} if bad["cases"] else {"mcase": bad["mcases"][0]}
        first["obligation"] = "correspondence C03.Corr.check / C03.CorrM.check4 (model vs implementation)"
        ctx.violation(first, False, "model and implementation disagree on a history (%d of them), but no history "
                      "violating the property itself was found" % nbad)


def replay(ctx, path):
    rp = json.load(open(path))
    binary, blog = vlib.build_harness("c03")
    if binary is None:
        print(blog); return 2
    if "special" in rp:
        vlib.sh([binary, "--extra", "special", "--replay", path, "--out", ctx.dir], env=vlib.go_env())
        res = json.load(open(os.path.join(ctx.dir, "special_replay.json")))
        print("special case: %s" % res["text"])
        print("differences between storages: %d, matched by recorded classes %s, unmatched: %d" % (
            res["differences"], res["known_ids"], res["unmatched"]))
        return 1 if res["fails"] else 0
    if "vseq" in rp:
        hin = os.path.join(ctx.dir, "vhunt_in.json")
        json.dump({"vseq": rp["vseq"]}, open(hin, "w"))
        vlib.sh([binary, "--extra", "vhunt", "--replay", hin, "--n", "0", "--out", ctx.dir], env=vlib.go_env())
        h = json.load(open(os.path.join(ctx.dir, "vhunt.json")))
        print("view/alias program on the implementation: %s" % (h["failure"] if h.get("found") else "all storages agree"))
        return 1 if h.get("found") else 0
    if "ccase" in rp or "stream" in rp:
        hin = os.path.join(ctx.dir, "chunt_in.json")
        if "stream" in rp:
            json.dump({"stream": rp["stream"]}, open(hin, "w"))
        else:
            case = dict(rp["ccase"]); case.pop("outs", None)
            json.dump({"ccases": [case]}, open(hin, "w"))
        vlib.sh([binary, "--extra", "chunt", "--replay", hin, "--n", "0", "--out", ctx.dir], env=vlib.go_env())
        h = json.load(open(os.path.join(ctx.dir, "chunt.json")))
        print("property oracle on the implementation: %s" % (h["failure"] if h.get("found") else "holds"))
        if h.get("found"):
            return 1
        if "ccase" in rp and rp.get("obligation"):
            b2 = corr(ctx, binary, 360 if ctx.tier == "quick" else 3600)
            return 1 if b2["ccases"] else 0
        return 0
    if "mcase" in rp:
        hin = os.path.join(ctx.dir, "hunt_in.json")
        case = dict(rp["mcase"]); case.pop("outs", None)
        json.dump({"mcases": [case]}, open(hin, "w"))
        vlib.sh([binary, "--extra", "hunt", "--replay", hin, "--n", "0", "--out", ctx.dir], env=vlib.go_env())
        h = json.load(open(os.path.join(ctx.dir, "hunt.json")))
        print("property oracle on the implementation: %s" % (h["failure"] if h.get("found") else "holds"))
        if not h.get("found"):
            # a model/implementation disagreement without a property failure: re-run the correspondence
            ctx2_bad = corr(ctx, binary, 360 if ctx.tier == "quick" else 3600)
            return 1 if (ctx2_bad["cases"] or ctx2_bad["mcases"]) else 0
        return 1
    if "case" not in rp:
        print("replay names a broken obligation, not an input: %s" % rp.get("obligation"))
        ok, failures = vlib.proof_stage(ctx, TARGETS, PROPS)
        return 0 if ok else 1
    vlib.sh([binary, "--replay", path, "--out", ctx.dir], env=vlib.go_env())
    res = vlib.eval_shards(sorted(glob.glob(os.path.join(ctx.dir, "replay_*.v"))))
    hin = os.path.join(ctx.dir, "hunt_in.json")
    case = dict(rp["case"]); case.pop("outs", None)
    json.dump({"cases": [case]}, open(hin, "w"))
    vlib.sh([binary, "--extra", "hunt", "--replay", hin, "--n", "0", "--out", ctx.dir], env=vlib.go_env())
    h = json.load(open(os.path.join(ctx.dir, "hunt.json")))
    agree = bool(res) and all(r["ok"] for r in res)
    print("model/implementation agree on the replayed history: %s" % agree)
    print("property oracle on the implementation: %s" % (h["failure"] if h.get("found") else "holds"))
    return 1 if (h.get("found") or not agree) else 0
