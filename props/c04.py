"""C04 — linear solves, inverses and determinants satisfy their defining equations."""
import glob, json, os
import vlib

PROOFS = ["C04/ProofsList.vo", "C04/ProofsPerm.vo", "C04/ProofsDet.vo", "C04/ProofsBS.vo", "C04/ProofsGJ.vo",
          "C04/ProofsGJ2.vo", "C04/ProofsGJ3.vo", "C04/ProofsGJ4.vo", "C04/ProofsSing.vo", "C04/ProofsInv.vo",
          "C04/ProofsDet2.vo", "C04/ProofsEx.vo", "C04/ProofsNaN.vo", "C04/ProofsNaN2.vo", "C04/ProofsDet3.vo",
          "C04/ProofsBuf.vo", "C04/ProofsHist.vo", "C04/ProofsPD.vo"]
TARGETS = ["Base/Num.vo", "Base/Corr.vo", "C04/Model.vo", "C04/Model2.vo", "C04/Corr.vo", "C04/Spec.vo", "C04/SpecTest.vo"] + \
          [p for p in PROOFS if os.path.exists(os.path.join(vlib.COQ, p[:-1]))] + ["C04/Props.vo"]
PROPS = ["C04/Props.v"]
PARTIAL = ("Theorems are over an arbitrary field (exact arithmetic) about the hand-written model coq/C04/Model.v + Model2.v (full Gauss-Jordan "
           "contract incl. sub-matrix selection, upper-triangular variant, the three matrixInverse modes at /repo HEAD, singular structure) and "
           "over the NaN-aware carrier option K (None = any non-finite value) for the singular exits; the step from exact to "
           "binary64 / binary32 arithmetic is not proved: it is bounded per sampled case by the bit-exact replay of the model at Coq's "
           "primitive floats (binary32 = binary64 operation followed by SpecFloat rounding to 24 bits) against the Go results and by exact "
           "rational residual goals on Go's output. The PositiveDefinite inverse theorem (every sub-matrix mask) takes the Cholesky "
           "factor's properties (lower triangular, non-zero diagonal, L*L^T = masked matrix) as hypotheses (subject of C05). "
           "determinantNaive is identified with the determinant through its characterisation (multilinear in every row, alternating for "
           "adjacent rows, det I = 1), not through det(A*B) or a permutation-sum formula. History independence is a theorem about the "
           "MODEL (which has no hidden state; caller-supplied Id/A/B/X buffers are explicit and proved irrelevant, Cholesky.L buffers are "
           "not covered by the theorem); that the IMPLEMENTATION has no hidden state is tested, not proved: sequences of calls over "
           "Float32/Float64/Real32/Real64 and all routines in one process, each compared bit-exactly with the history-free model. "
           "LogScale: math.Log values at the Cholesky diagonal are taken from a table recorded by the harness (not certified in Coq); "
           "the hunt oracle compares with the logarithm of the exact determinant.")
CORPUS = os.path.join(vlib.ROOT, "corpus/C04/corpus.jsonl")


def corr(ctx, binary, n):
    rc, out = vlib.run_harness(ctx, binary, n, extra=CORPUS)
    if rc != 0:
        ctx.violation({"obligation": "C04 harness run", "log": out[-3000:]}, False,
                      "harness failed on the implementation (crash while generating cases)")
        return [], True
    meta = json.load(open(os.path.join(ctx.dir, "cases.meta.json")))
    vlib.merge_meta(ctx, meta)
    shards = sorted(glob.glob(os.path.join(ctx.dir, "cases_*.v")),
                    key=lambda p: int(os.path.basename(p)[6:-2]))
    res = vlib.eval_shards(shards)
    ctx.oblige(len(res), sum(1 for r in res if r["ok"]))
    cases = vlib.load_jsonl(os.path.join(ctx.dir, "cases.jsonl"))
    bad, lost = [], False
    for k, r in enumerate(res):
        if r["ok"]:
            continue
        if r["mism"] is None:
            lost = True
            ctx.violation({"obligation": "correspondence shard " + os.path.basename(r["path"]),
                           "coqc_error": r["error"]}, False, "correspondence shard did not evaluate")
            continue
        for i in r["mism"]:
            bad.append(cases[k * meta["per_shard"] + i])
    ctx.log("correspondence: %d cases in %d shards (%.0fs coqc), %d mismatching" % (
        len(cases), len(res), sum(r["secs"] for r in res), len(bad)))
    return bad, lost


def hunt(ctx, binary, bad):
    """Search for an input on which the property itself fails on the implementation."""
    rp = os.path.join(ctx.dir, "hunt_in.json")
    corpus = []
    if os.path.exists(CORPUS):
        corpus = [json.loads(l) for l in open(CORPUS) if l.strip() and not l.startswith("#")]
    json.dump({"cases": corpus + bad[:60]}, open(rp, "w"))
    n = 4000 if ctx.tier == "quick" else 60000
    rc, out = vlib.sh([binary, "--extra", "hunt", "--replay", rp, "--n", str(n), "--seed", str(ctx.seed),
                       "--out", ctx.dir, "--tier", ctx.tier], timeout=1500, env=vlib.go_env())
    hp = os.path.join(ctx.dir, "hunt.json")
    if rc == 0 and os.path.exists(hp):
        h = json.load(open(hp))
        ctx.cov.setdefault("extra", {})["hunt_tried"] = h.get("tried")
        return h
    ctx.violation({"obligation": "C04 hunt run", "log": out[-3000:]}, False, "the property oracle crashed on the implementation")
    return None


def all_known():
    fs = list(vlib.known_findings("C04"))
    pp = os.path.join(vlib.ROOT, "corpus/C04/known_findings_proposed.json")
    if os.path.exists(pp):
        ids = {f.get("id") for f in fs}
        fs += [f for f in json.load(open(pp)).get("findings", []) if f.get("id") not in ids]
    return fs


def known(failure, case):
    """Match a hunt failure narrowly (call site + option combination + failure kind) against the known findings."""
    for f in all_known():
        w = f.get("match", {})
        if w.get("kind") != case.get("kind"):
            continue
        if w.get("failure_contains") and w["failure_contains"] not in failure:
            continue
        if "mode" in w and w["mode"] != case.get("mode", 0):
            continue
        return f
    return None


def run(ctx):
    ctx.cov["trusted_base"] = vlib.TRUSTED_BASE_COMMON + [
        "Coq primitive floats (PrimFloat, evaluated by vm_compute) reproduce IEEE binary64 + - * / sqrt abs and comparisons; used only in the correspondence, never in a theorem",
        "binary32 (Float32/Real32): r32 (x op64 y) with r32 = SpecFloat.binary_normalize 24 128 equals the correctly rounded binary32 operation (double rounding innocuous, 53 >= 2*24+2) and Go's float32() conversion",
        "math.Log at the Cholesky diagonal entries (LogScale determinant): values recorded by the harness, looked up by the model",
        "Go's %x float formatting and Coq's hexadecimal float parser; error kinds are derived from Go's error / panic message text",
        "axioms: see 'print_assumptions' (expected: closed under the global context)"]
    ctx.cov["partial"] = PARTIAL
    ok, failures = vlib.proof_stage(ctx, TARGETS, PROPS)
    thms = vlib.theorem_names(os.path.join(vlib.COQ, "C04/Props.v"))
    ctx.cov["theorems"] = thms
    if ok:
        ctx.cov["print_assumptions"] = vlib.print_assumptions("C04", [("C04.Props", thms)], ctx.dir)
    binary, blog = vlib.build_harness("c04")
    if binary is None:
        ctx.violation({"obligation": "build of harness/c04 against the library", "log": blog[-3000:]}, False,
                      "tie lost: the C04 harness no longer builds against the library")
        return
    n = 300 if ctx.tier == "quick" else 3000
    bad, lost = corr(ctx, binary, n)
    # the property oracle runs on the implementation on every run (known findings are re-confirmed by it)
    h = hunt(ctx, binary, bad)
    found = []
    if h:
        for e in (h.get("all") or ([{"failure": h["failure"], "case": h["case"]}] if h.get("found") else [])):
            kf = known(e["failure"], e["case"])
            if kf:
                ctx.known_finding(kf["id"], kf["what"])
            else:
                found.append(e)
    if found:
        e = found[0]
        ctx.violation({"case": e["case"], "failure": e["failure"],
                       "broken": [f["target"] for f in failures] + (["correspondence C04.Corr.check"] if bad else [])},
                      True, "defining equation / reporting contract violated on the implementation: " + e["failure"])
        return
    for f in failures:
        ctx.violation({"obligation": f["target"], "lemma": f["lemma"], "errors": f["errors"]}, False,
                      "proof obligation no longer checks: %s %s" % (f["target"], f["lemma"] or ""))
    if bad:
        ctx.violation({"case": bad[0], "n_mismatching": len(bad),
                       "obligation": "correspondence C04.Corr.check (model vs implementation, bit-exact / exact residual)"},
                      False, "model and implementation disagree (or an exact residual goal fails) on %d case(s), "
                             "but the property oracle found no input violating the defining equations" % len(bad))


def replay(ctx, path):
    rp = json.load(open(path))
    binary, blog = vlib.build_harness("c04")
    if binary is None:
        print(blog); return 2
    if "case" not in rp:
        print("replay names a broken obligation, not an input: %s" % rp.get("obligation"))
        ok, failures = vlib.proof_stage(ctx, TARGETS, PROPS)
        return 0 if ok else 1
    agree = True
    if rp["case"].get("kind") in ("GJ", "Inv", "BS", "Det", "DetPD", "Perm"):
        rc, out = vlib.sh([binary, "--replay", path, "--out", ctx.dir], env=vlib.go_env())
        res = vlib.eval_shards(sorted(glob.glob(os.path.join(ctx.dir, "replay_*.v"))))
        agree = bool(res) and all(r["ok"] for r in res)
    hin = os.path.join(ctx.dir, "hunt_in.json")
    json.dump({"cases": [rp["case"]]}, open(hin, "w"))
    vlib.sh([binary, "--extra", "hunt", "--replay", hin, "--n", "0", "--out", ctx.dir], env=vlib.go_env())
    h = json.load(open(os.path.join(ctx.dir, "hunt.json")))
    print("model/implementation agree on the replayed case (incl. exact residual goals): %s" % agree)
    print("property oracle on the implementation: %s" % (h["failure"] if h.get("found") else "holds"))
    return 1 if (h.get("found") or not agree) else 0
