"""C05 — matrix factorizations reproduce their input with the promised structure."""
import glob, json, os
import vlib

PROOFS = ["C05/Refuted.vo", "C05/ProofsBase.vo", "C05/ProofsChol.vo", "C05/ProofsLdl.vo", "C05/ProofsHouse.vo", "C05/ProofsGivens.vo",
          "C05/ResidProofs.vo", "C05/ProofsHouse2.vo", "C05/ProofsBlock.vo", "C05/ProofsTrace.vo", "C05/ProofsHess.vo",
          "C05/ProofsGS.vo", "C05/ProofsLdl2.vo", "C05/ProofsChol2.vo", "C05/ProofsTridiag.vo", "C05/ProofsBidiag.vo", "C05/ProofsTridiag2.vo", "C05/ProofsOpts.vo", "C05/ProofsBand.vo", "C05/ProofsTraceTie.vo"]
# round 5: fuelled loop models of the iterative routines (ModelIter), their specification vocabulary and proofs
PROOFS += [f for f in ["C05/ModelIter.vo", "C05/SpecIter.vo", "C05/ProofsIterSymSweep.vo", "C05/ProofsIterSymLoop.vo",
                       "C05/ProofsIterSvdSweep.vo", "C05/ProofsIterSvdLoop.vo", "C05/ProofsIterFrSweep.vo", "C05/ProofsIterFrLoop.vo"]
           if os.path.exists(os.path.join(vlib.COQ, f[:-1]))]
# round 6: executable model of eigensystem / backSubstitution and its proofs
PROOFS += [f for f in ["C05/ModelEig.vo", "C05/ProofsEig.vo", "C05/ProofsEig2.vo", "C05/ProofsEigSort.vo"]
           if os.path.exists(os.path.join(vlib.COQ, f[:-1]))]
# round 3: optional correspondence files of the extra streams (Float32 paths, re-derived step traces)
EXTRA_STREAMS = [("cases32", "C05/Corr32", "case32", "correspondence C05.Corr32 (binary32 replay of the Float32/Real32 paths)"),
                 ("tcases", "C05/CorrTrace", "tcase", "correspondence C05.CorrTrace (re-derived step trace of an iterative routine)"),
                 ("icases", "C05/CorrIter", "icase", "correspondence C05.CorrIter (whole run of an iterative routine recomputed by the fuelled loop model)"),
                 ("hcases", "C05/Corr", "hcase", "correspondence C05.Corr on InSitu-reuse histories (second run vs the buffer-free model / a fresh call)"),
                 # round 6: eigensystem.Run / backSubstitution.Run recomputed as a whole by C05.ModelEig
                 ("ecases", "C05/CorrEig", "ecase", "correspondence C05.CorrEig (whole run of eigensystem.Run / backSubstitution.Run recomputed by the model)")]
TARGETS = ["Base/Num.vo", "Base/Corr.vo", "C05/Model.vo", "C05/Corr.vo", "C05/Resid.vo", "C05/Spec.vo", "C05/SpecTest.vo"] \
          + [t + ".vo" for _, t, _, _ in EXTRA_STREAMS if t != "C05/Corr" and os.path.exists(os.path.join(vlib.COQ, t + ".v"))] \
          + PROOFS + ["C05/Props.vo"]
PROPS = ["C05/Props.v"]
PARTIAL = ("Theorems (over R, all sizes) cover the direct routines (Cholesky soundness and completeness, LDL, forced-PD LDL, "
           "Householder vector and application, Givens rotation and its banded shortcuts, Gram-Schmidt at HEAD, Hessenberg "
           "reduction, bidiagonalisation and tridiagonalisation at HEAD, independence of the ComputeU / ComputeV options) and, "
           "since round 5, the ITERATIVE routines through fuelled loop models (coq/C05/ModelIter.v: symmetric QR algorithm, "
           "Francis QR algorithm with its 2x2 post-processing, Golub-Kahan SVD with zero-row chase and sign flips; the whole "
           "control flow is inside the model): for EVERY fuel, epsilon and input the state keeps its structure (symmetric "
           "tridiagonal / upper Hessenberg / upper bidiagonal), the accumulators are orthogonal, and U H U^T (U B V^T) is "
           "reached from the input by deflation steps as coded only (each zeroes an entry that passed the routine's own "
           "negligibility test) - every sweep in between is an exact orthogonal similarity (bulge-chasing invariants proved "
           "for the banded / sub-block applications); with epsilon = 0 the similarity is exact; converged runs end diagonal "
           "(symmetric, SVD with non-negative diagonal) resp. quasi upper triangular (Francis).  The models are hand-written "
           "and tied to the Go code by bit-exact replay on primitive floats of the WHOLE run (C05.CorrIter: fresh calls, "
           "caller-supplied non-identity InSitu buffers, second runs of InSitu-reuse histories, default and explicit Epsilon, "
           "Float64 and Real64), next to the older re-derived step traces (C05.CorrTrace) and the exact residual checker "
           "(C05.Resid).  NOT proved: convergence / termination for a given fuel (F-QR-HANG, F-SVD-ZERODIAG-HANG exist), the size "
           "of the accumulated deflation perturbation (each step is bounded by the coded test, the sum is not), that the "
           "remaining 2x2 blocks of the Francis result have complex eigenvalues, and the rounding error of the binary64 run "
           "(bounded per sampled case by the residual checker only).  Since round 6 eigensystem.Run and "
           "backSubstitution.Run have an executable model (coq/C05/ModelEig.v: getEigenvalues, back substitution, getEigenvector "
           "with the h -= lambda / += lambda shifts, U x, normalisation, the copied buffer column whose stale tail is the mechanism "
           "of F-EIG-INSITU-REUSE, the insertion sort that sort.Sort runs for n <= 12, the cycle-following column interchange loop, "
           "the Symmetric branch, the forwarded Epsilon option, the ignored buffer without ComputeEigenvectors) tied by "
           "bit-exact replay of the WHOLE call (C05.CorrEig: eigenvalues, eigenvectors, inSitu.QrAlgorithm.H; fresh / empty InSitu / "
           "caller-supplied buffers / reuse histories; Float64 and Real64).  Proved for every size: back substitution solves the upper "
           "triangular system and never reads below the diagonal; at a position k whose leading k+1 columns of H are upper triangular "
           "with H_kk not repeated above k the vector of getEigenvector satisfies H x = H_kk x, h is restored, and U x / |U x| is a "
           "UNIT eigenvector of A = U H U^T; without ComputeEigenvectors the result does not depend on a recycled buffer and carries no "
           "eigenvectors; the sort returns (value, index of origin) pairs in decreasing magnitude that are a "
           "permutation of the input pairs.  NOT proved: that the interchange loop puts column p[t] at position t for EVERY n (checked "
           "in Coq for all permutations of up to 5 columns and replayed bit-exactly per run; its inner chase loop carries fuel n), the "
           "closed form of getEigenvalues (replayed only), eigenvectors at positions behind a 2x2 block or for a repeated eigenvalue "
           "(the code is wrong / divides by zero there: F-EIGNAN), sort.Sort for n > 12 (pdqsort; not replayed).  msqrt and msqrtInv "
           "still have no executable model (matrixInverse is outside this property's models): they are decided per run by the "
           "residual checker, and their InSitu-reuse histories by bit-equality with a fresh call (finding F-QR-INSITU-STALE-H for "
           "qr / eig without InitializeH).  "
           "Runs that do not converge within the sweep cap of the harness's lock-step skeleton are not replayed.  Round 7 "
           "added no theorem: it widened the tie of the Francis loop model to general matrices of size 6..10 with ComputeU whose "
           "real 2x2 blocks start at row >= 4 (QRstep with more than three rows above the active block; residual stream and "
           "whole-run replay), hands loop-model mismatches to the property oracle for a concrete failing input, and matches the "
           "isolated stationary block [[a,b],[c,a]], bc > 0, of a non-symmetric input as F-QR-HANG.  The Float32 / "
           "Real32 Cholesky family is replayed on a binary32 carrier (no theorem for forced-PD there).")
KF_PROPOSED = os.path.join(vlib.ROOT, "corpus/C05/known_findings_proposed.json")
CORPUS = os.path.join(vlib.ROOT, "corpus/C05/corpus.json")


# ---------------------------------------------------------------------------- known findings

def _mat(inp):
    m = inp.get("m") or {}
    r, c = m.get("r", 0), m.get("c", 0)
    v = [float.fromhex(x) for x in m.get("v", [])]
    return r, c, v


def pred_qr_hang_prone(inp):
    """inputs on which an exactly stationary 2x2 block [[a,b],[c,a]], bc > 0, or a stalled symmetric deflation
    can arise: symmetric matrices, and matrices whose entries are all small half-integers (integer families,
    permutations, companions).  A generic dense float matrix is NOT in this class: a hang there is a violation."""
    r, c, v = _mat(inp)
    if r < 2 or r != c:
        return False
    sym = all(v[i * c + j] == v[j * c + i] for i in range(r) for j in range(i))
    halfint = all(x == x and abs(x) <= 64 and (2 * x) == int(2 * x) for x in v)
    return sym or halfint or _isolated_stationary_block(r, c, v)


def _isolated_stationary_block(r, c, v):
    """round 7: the INPUT is upper Hessenberg and carries an isolated diagonal block [[a,b],[c,a]] with b*c > 0 (zero
    sub-diagonal entry above and below it): the Hessenberg reduction and the Francis steps on the other blocks never
    touch its four entries, and the single-shift QRstep with shift a only swaps it (period 2) - the mechanism of F-QR-HANG
    on a matrix that is neither symmetric nor half-integer (witness: corpus family kf-qr-hang-isolated-block)."""
    h = lambda i, j: v[i * c + j]
    if any(h(i, j) != 0 for i in range(r) for j in range(c) if i > j + 1):
        return False
    for i in range(r - 1):
        if h(i, i) == h(i + 1, i + 1) and h(i, i + 1) * h(i + 1, i) > 0 and \
                (i == 0 or h(i, i - 1) == 0) and (i + 2 == r or h(i + 2, i + 1) == 0):
            return True
    return False


def pred_resid_within_stop_rule(inp):
    """F-MSQRT-STOP: the reported residual is explained by the stopping rule |dX|_F^2 <= 1e-8 (residual about
    max|A| * |dX|^2): at most n * max(1, max|A|) * 2^-24.  A larger residual is NOT this finding."""
    r, c, v = _mat(inp)
    try:
        resid = float(str(inp.get("_failure", "")).split()[-1])
    except (ValueError, IndexError):
        return False
    return r >= 1 and resid == resid and resid <= r * max(1.0, max(abs(x) for x in v)) * 2.0 ** -24


PREDS = {
    "n_ge2": lambda inp: _mat(inp)[0] >= 2,
    "qr_hang_prone": pred_qr_hang_prone,
    "resid_within_stop_rule": pred_resid_within_stop_rule,
    # set by the harness on an svd call that did not return: the Householder bidiagonal form of
    # the input has B[k,k] == 0 exactly with B[k-1,k] != 0 (computed by the library's own routine)
    "svd_zero_diag_block_end": lambda inp: bool((inp.get("diag") or {}).get("zero_diag_block_end")),
}


def findings():
    fs = list(vlib.known_findings("C05"))
    ids = {f["id"] for f in fs}
    if os.path.exists(KF_PROPOSED):
        for f in json.load(open(KF_PROPOSED)).get("findings", []):
            if f.get("property") == "C05" and f["id"] not in ids:
                fs.append(f)
    return fs


def is_known(site, cls, inp, failure=None):
    """narrow match: routine (site), failure class and a predicate on the concrete input (+ reported failure)"""
    if failure is not None and isinstance(inp, dict):
        inp = dict(inp, _failure=failure)
    for f in findings():
        m = f.get("match", {})
        if site not in m.get("kinds", []) or cls not in m.get("classes", []):
            continue
        if all(PREDS[p](inp) for p in m.get("preds", [])):
            return f
    return None


# ---------------------------------------------------------------------------- stages

def eval_stream(ctx, name):
    """evaluate the shards <name>_<k>.v; returns (raw cases, indices of failing cases)"""
    mp = os.path.join(ctx.dir, name + ".meta.json")
    meta = json.load(open(mp))
    meta["samples"] = meta.get("samples") or []      # a stream may be empty (hang budget used up before it started)
    meta["histogram"] = meta.get("histogram") or {}
    vlib.merge_meta(ctx, meta)
    shards = sorted(glob.glob(os.path.join(ctx.dir, name + "_*.v")),
                    key=lambda p: int(os.path.basename(p)[len(name) + 1:-2]))
    res = vlib.eval_shards(shards)
    ctx.oblige(len(res), sum(1 for r in res if r["mism"] is not None))
    raw = vlib.load_jsonl(os.path.join(ctx.dir, name + ".jsonl"))
    bad = []
    for k, r in enumerate(res):
        if r["mism"] is None:
            ctx.violation({"obligation": "shard " + os.path.basename(r["path"]), "coqc_error": r["error"]}, False,
                          "case shard did not evaluate: " + os.path.basename(r["path"]))
            continue
        for i in r["mism"]:
            bad.append(k * meta["per_shard"] + i)
    ctx.log("%s: %d cases in %d shards, %d flagged (%.0fs coqc)" % (name, len(raw), len(res), len(bad),
                                                                    sum(r["secs"] for r in res)))
    return meta, raw, bad


def run_hunt(ctx, binary, direct, iters, n):
    hin = os.path.join(ctx.dir, "hunt_in.json")
    json.dump({"direct": direct, "iter": iters}, open(hin, "w"))
    rc, out = vlib.sh([binary, "--extra", "hunt", "--replay", hin, "--n", str(n), "--seed", str(ctx.seed),
                       "--out", ctx.dir], timeout=1200, env=vlib.go_env())
    hp = os.path.join(ctx.dir, "hunt.json")
    if rc != 0 or not os.path.exists(hp):
        ctx.violation({"obligation": "C05 hunt run", "log": out[-2000:]}, False, "hunt run failed")
        return {"results": [], "handed": [], "tried": 0}
    return json.load(open(hp))


def run(ctx):
    ctx.cov["trusted_base"] = vlib.TRUSTED_BASE_COMMON + [
        "Coq primitive floats (binary64) reproduce Go float64 + - * / sqrt and comparisons; Go math.Pow(x,2) = x*x outside the subnormal range; Go amd64 does not fuse multiply-add",
        "binary32: Go float32 + - * / sqrt = SpecFloat.binary_normalize 24 128 of the binary64 result (double rounding innocuous, 53 >= 2*24+2)",
        "harness/c05/trace.go: hand-written lock-step copy of the control skeleton of qrAlgorithm / svd (validated per run by bit-equality with the library's result); since round 5 only a second tie and the convergence pre-check (the decision tie of the iterative routines is the Coq loop model C05.ModelIter replayed by C05.CorrIter)",
        "axioms: see 'print_assumptions' (Coq Reals: ClassicalDedekindReals.sig_forall_dec, sig_not_dec, functional_extensionality_dep)"]
    ctx.cov["partial"] = PARTIAL
    ok, failures = vlib.proof_stage(ctx, TARGETS, PROPS)
    thms = vlib.theorem_names(os.path.join(vlib.COQ, "C05/Props.v"))
    if ok:
        ctx.cov["print_assumptions"] = vlib.print_assumptions("C05", [("C05.Props", thms)], ctx.dir)
    binary, blog = vlib.build_harness("c05")
    if binary is None:
        ctx.violation({"obligation": "build of harness/c05 against the library", "log": blog[-3000:]}, False,
                      "tie lost: the C05 harness no longer builds against the library")
        return
    n = 260 if ctx.tier == "quick" else 2600
    rc, out = vlib.run_harness(ctx, binary, n, extra=CORPUS, timeout=1500)
    if rc != 0:
        ctx.violation({"obligation": "C05 harness run", "log": out[-3000:]}, False, "harness failed on the implementation")
        return
    dmeta, draw, dbad = eval_stream(ctx, "cases")
    rmeta, rraw, rbad = eval_stream(ctx, "rcases")
    for name, _, key, what in EXTRA_STREAMS:
        if not os.path.exists(os.path.join(ctx.dir, name + ".meta.json")):
            continue
        xmeta, xraw, xbad = eval_stream(ctx, name)
        # F-FPD-INPLACE is observed by the harness on the implementation (aliased call vs call on fresh buffers);
        # the aliased behaviour itself is modelled as coded (Corr32.fpd32_inplace) and replayed bit-exactly
        nalias = (xmeta.get("histogram") or {}).get("fpd-inplace-differs-from-fresh", 0)
        if name == "cases32" and nalias:
            for f in findings():
                if f["id"] == "F-FPD-INPLACE":
                    ctx.known_finding(f["id"], "%s [%d occurrence(s) this run]" % (f["what"], nalias))
        xh = xmeta.get("histogram") or {}
        # round 5 findings observed by the harness on InSitu-reuse histories (never decided by the model)
        if name == "hcases" and xh.get("eig-insitu-reuse:eigenvectors-differ-from-fresh", 0):
            for f in findings():
                if f["id"] == "F-EIG-INSITU-REUSE":
                    ctx.known_finding(f["id"], "%s [%d occurrence(s) this run]" % (
                        f["what"], xh["eig-insitu-reuse:eigenvectors-differ-from-fresh"]))
        nstale = xh.get("stale-H:second-run-ignores-its-input", 0)
        if name in ("hcases", "icases") and nstale:
            for f in findings():
                if f["id"] == "F-QR-INSITU-STALE-H":
                    ctx.known_finding(f["id"], "%s [%d occurrence(s) in %s]" % (f["what"], nstale, name))
        efound = {}
        if name == "ecases" and xbad:
            # a broken tie of the eigensystem model: hand the inputs to the property oracle on the implementation
            # (A v = lambda v, |v| = 1, eigenvalues sorted, eigenpairs aligned) to obtain a concrete failing input
            its, back = [], []
            for i in xbad[:8]:
                ein = xraw[i].get("in") or {}
                if ein.get("kind") == "eig" and ein.get("mode") in ("fresh", "insitu"):
                    fam = ein.get("family") or ""
                    its.append({"kind": "eig", "m": ein["m"], "b1": bool(ein.get("ce")), "sym": bool(ein.get("sym")),
                                "path": ein.get("path") or "f64", "family": fam,
                                "real_spectrum": fam.startswith(("near-triangular", "triangular", "symmetric", "witness-sort"))})
                    back.append(i)
            if its:
                hh = run_hunt(ctx, binary, [], its, 0)
                for r in (hh.get("handed") or []):
                    if r.get("found") and r.get("is_iter") and r["idx"] < len(back) and \
                            not is_known(r["site"], r["class"], r.get("iter"), r["failure"]):
                        efound[back[r["idx"]]] = r
        if name == "icases" and xbad:
            # round 7: a broken tie of a loop model: hand the inputs (as fresh calls with all factors requested) to the
            # property oracle on the implementation (U'U = I, U H U' = A, structure) to obtain a concrete failing input
            its, back = [], []
            for i in xbad[:8]:
                hin = xraw[i].get("in") or {}
                kd = {"qr": "qr", "symqr": "qr", "svd": "svd"}.get(hin.get("kind"))
                if kd and hin.get("m"):
                    its.append({"kind": kd, "m": hin["m"], "b1": True, "b2": kd == "svd", "sym": hin.get("kind") == "symqr",
                                "path": hin.get("path") or "f64", "family": hin.get("family") or ""})
                    back.append(i)
            if its:
                hh = run_hunt(ctx, binary, [], its, 0)
                for r in (hh.get("handed") or []):
                    if r.get("found") and r.get("is_iter") and r["idx"] < len(back) and \
                            not is_known(r["site"], r["class"], r.get("iter"), r["failure"]):
                        efound[back[r["idx"]]] = r
        for i in xbad[:5]:
            if name == "icases" and i in efound:
                r = efound[i]
                ctx.violation({"rcase": {"iter": r.get("iter")}, key: xraw[i], "obligation": what, "site": r["site"],
                               "failure": r["failure"]}, True,
                              "%s violates the factorization property: %s (and differs from its loop model)" % (r["site"], r["failure"]))
                continue
            if name == "ecases" and xraw[i].get("outcome") in ("panic", "epsilon-ignored"):
                # observed on the implementation itself (regressions of the repaired F-EIG-INSITU-NOVEC-PANIC /
                # F-EIG-EPSILON-DROPPED): the replayed input is the failing input
                ctx.violation({key: xraw[i], "obligation": what}, True,
                              "eigensystem.Run %s on this input: %s" % (
                                  "panics" if xraw[i]["outcome"] == "panic" else "ignores the requested qrAlgorithm.Epsilon",
                                  json.dumps(xraw[i])[:300]))
                continue
            if i in efound:
                r = efound[i]
                ctx.violation({"rcase": {"iter": r.get("iter")}, key: xraw[i], "obligation": what, "site": r["site"],
                               "failure": r["failure"]}, True,
                              "eigensystem violates the factorization property: %s (and differs from its model)" % r["failure"])
                continue
            if name == "cases32" and xraw[i].get("oracle"):
                # round 7: the harness's own residual of the returned binary32 factors fails on this input
                ctx.violation({key: xraw[i], "obligation": what, "failure": xraw[i]["oracle"]}, True,
                              "cholesky violates the factorization property: %s (and differs from its binary32 model): %s" % (
                                  xraw[i]["oracle"], json.dumps(xraw[i].get("in"))[:300]))
                continue
            hist_found = name in ("icases", "hcases") and (xraw[i].get("outcome") == "differs-from-fresh")
            ctx.violation({key: xraw[i], "obligation": what}, hist_found,
                          ("the second run of an InSitu-reuse history differs from a call on fresh buffers and from the model (%s): %s"
                           if hist_found else "model and implementation disagree (%s): %s") % (name, json.dumps(xraw[i])[:300]))
    known = {}          # id -> (finding, count)
    unexplained = []    # (replay object, found_input, text)

    def account(site, cls, inp, failure, extra):
        f = is_known(site, cls, inp, failure)
        if f:
            known.setdefault(f["id"], [f, 0])[1] += 1
            return True
        unexplained.append((dict(extra, site=site, failure=failure, failure_class=cls), True,
                            "%s violates the factorization property: %s" % (site, failure)))
        return False

    # calls that did not return a value: classified without re-running (a hang costs a deadline each)
    for t in (rmeta.get("extra") or {}).get("timeouts") or []:
        account(t["iter"]["kind"], "timeout", t["iter"], "timeout: did not return within the deadline", {"rcase": t})
    for t in (rmeta.get("extra") or {}).get("nonvalues") or []:
        if t["outcome"].startswith("panic"):
            account(t["iter"]["kind"], "panic", t["iter"], t["outcome"], {"rcase": t})
        # a returned error is a loud failure, not a wrong factorization (msqrt: singular iterate)
    # flagged residual cases and model/implementation mismatches go to the Go oracle (+ fresh search)
    hd = [draw[i]["in"] for i in dbad][:40]
    hr_d = [rraw[i]["direct"] for i in rbad if rraw[i].get("direct")]
    hr_i = [rraw[i]["iter"] for i in rbad if rraw[i].get("iter")]
    nh = 120 if ctx.tier == "quick" else 1500
    h = run_hunt(ctx, binary, hd + hr_d, hr_i, nh)
    nd = len(hd)
    explained_direct = set()
    for r in (h.get("handed") or []):
        inp = r.get("iter") if r["is_iter"] else r.get("direct")
        from_corr = (not r["is_iter"]) and r["idx"] < nd
        if r["found"]:
            okk = account(r["site"], r["class"], inp, r["failure"],
                          {"rcase": {"iter": inp} if r["is_iter"] else {"direct": inp}, "orig": r.get("orig")})
            if from_corr:
                explained_direct.add(r["idx"])   # reported (as known finding or as violation with its input)
        elif not from_corr:
            unexplained.append(({"rcase": {"iter": inp} if r["is_iter"] else {"direct": inp},
                                 "obligation": "C05.Resid.rcheck vs Go oracle"}, False,
                                "the Coq residual checker rejects an output that the Go oracle accepts (%s)" % r["site"]))
    for r in h.get("results", []):
        inp = r.get("iter") if r["is_iter"] else r.get("direct")
        account(r["site"], r["class"], inp, r["failure"], {"rcase": {"iter": inp} if r["is_iter"] else {"direct": inp}})
    ctx.cov.setdefault("extra", {})["hunt"] = {"tried": h.get("tried"), "hung": h.get("hung"),
                                               "handed_over": len(h.get("handed", [])), "fresh_failures": len(h.get("results", []))}
    for fid, (f, cnt) in sorted(known.items()):
        ctx.known_finding(fid, "%s [%d occurrence(s) this run]" % (f["what"], cnt))
    for obj, found, text in unexplained[:8]:
        ctx.violation(obj, found, text)
    # model vs implementation
    for k, i in enumerate(dbad[:40]):
        if k in explained_direct:
            continue
        ctx.violation({"case": draw[i], "obligation": "correspondence C05.Corr.dcheck (model vs implementation)"},
                      False, "model and implementation disagree on %s (bit-exact replay), and the output does not violate "
                             "the property" % draw[i]["in"]["kind"])
        if k >= 5:
            break
    for f in failures:
        ctx.violation({"obligation": f["target"], "lemma": f["lemma"], "errors": f["errors"]}, False,
                      "proof obligation no longer checks: %s %s" % (f["target"], f["lemma"] or ""))


def replay(ctx, path):
    rp = json.load(open(path))
    binary, blog = vlib.build_harness("c05")
    if binary is None:
        print(blog)
        return 2
    if not any(k in rp for k in ("case", "rcase", "case32", "tcase", "icase", "hcase", "ecase")):
        print("replay names a broken obligation, not an input: %s" % rp.get("obligation"))
        ok, failures = vlib.proof_stage(ctx, TARGETS, PROPS)
        return 0 if ok else 1
    vlib.sh([binary, "--replay", path, "--out", ctx.dir], env=vlib.go_env(), timeout=300)
    res = vlib.eval_shards(sorted(glob.glob(os.path.join(ctx.dir, "replay_*.v")) +
                                  glob.glob(os.path.join(ctx.dir, "rreplay_*.v")) +
                                  glob.glob(os.path.join(ctx.dir, "replay32_*.v")) +
                                  glob.glob(os.path.join(ctx.dir, "treplay_*.v")) +
                                  glob.glob(os.path.join(ctx.dir, "ireplay_*.v")) +
                                  glob.glob(os.path.join(ctx.dir, "hreplay_*.v")) +
                                  glob.glob(os.path.join(ctx.dir, "ereplay_*.v"))))
    agree = all(r["ok"] for r in res)
    direct, iters = [], []
    if rp.get("case"):
        direct.append(rp["case"]["in"])
    if rp.get("rcase"):
        if rp["rcase"].get("direct"):
            direct.append(rp["rcase"]["direct"])
        if rp["rcase"].get("iter"):
            iters.append(rp["rcase"]["iter"])
    h = run_hunt(ctx, binary, direct, iters, 0)
    fails = [r for r in (h.get("handed") or []) if r["found"]]
    r32 = os.path.join(ctx.dir, "replay32.jsonl")
    if rp.get("case32") and os.path.exists(r32):
        # round 7: the binary32 stream carries its own residual oracle (harness/c05/f32.go oracle32)
        fails += [{"failure": x["oracle"]} for x in vlib.load_jsonl(r32) if isinstance(x, dict) and x.get("oracle")]
    print("model and Coq residual checker accept the replayed case: %s" % agree)
    for r in fails:
        print("property oracle on the implementation: %s" % r["failure"])
    if not fails:
        print("property oracle on the implementation: holds")
    return 1 if (fails or not agree) else 0
