"""C01 — automatic differentiation returns exact first and second derivatives."""
import glob, json, os, re, shutil
import vlib

TARGETS = ["Base/Corr.vo", "Base/Fl.vo", "Base/Num.vo", "C01/Model.vo", "C01/Corr.vo", "C01/ModelR.vo", "C01/CorrR.vo",
           "C01/Spec.vo", "C01/ProofsList.vo", "C01/ProofsComb.vo", "C01/ProofsCoef.vo", "C01/ProofsJet.vo",
           "C01/ProofsRefuted.vo", "C01/ProofsStore.vo", "C01/ProofsOps.vo", "C01/ProofsSound.vo", "C01/ProofsChain2.vo",
           "C01/ProofsProg.vo", "C01/ModelVariants.vo", "C01/ProofsAlias.vo", "C01/ProofsSpecial.vo",
           "C01/ProofsRed.vo", "C01/ProofsSmooth.vo", "C01/ProofsDag.vo", "C01/Props.vo",
           "C01/ModelOpsLang.vo", "C01/Ops_gen.vo", "C01/ProofsGen.vo", "C01/ProofsGenR.vo", "C01/ProofsSeq.vo", "C01/ProofsLoop.vo", "C01/ProofsPred.vo",
           "C01/PropsGen.vo", "C01/ProofsLSM.vo", "C01/ProofsLSMF.vo", "C01/ProofsFar.vo", "C01/PropsLSM.vo"]
PROPS = ["C01/Props.v", "C01/PropsGen.v", "C01/PropsLSM.v"]
PARTIAL = ("Theorems are over the reals and about the hand-written register-file model coq/C01/Model.v, tied to the source (a) by "
           "translation: go2coq_c01 prints, on every run, the expressions of all 72 combinator call sites, the bodies of the 28 composite "
           "methods, (round 6) the 14 loops over vectors / matrices SmoothMax LogSmoothMax Vmean VdotV Vnorm Mtrace Mnorm (guards, local, "
           "prologue, iteration scheme, loop body, Mnorm's first-element split, epilogue) and the 12 predicates Greater Smaller Sign (+ concrete "
           "twins) of scalar_real{64,32}_math{,_concrete}.go into coq/C01/Ops_gen.v, and PropsGen.v proves, for every carrier, every vector "
           "length and all arguments, that their denotation is the model's operation table / composite programs / reductions / comparisons "
           "(only Equals / EQUALS stay outside the translated grammar: translator.hand_tied_only; the storage methods of scalar_real{64,32}.go "
           "and the eight combinators of scalar_real*_derivative.go are hand-transcribed: Model.v, ModelVariants.v), and (b) by the bit-exact "
           "single-step replay. Proved: combinator algebra (all n, orders 0-2, every aliasing of receiver and operands; the "
           "eight Go combinators transliterated one by one in ModelVariants.v are the two shared loops, and for every copy the aliased "
           "call c = a, c = b, c = a = b equals the fresh-receiver call; the gradient-before-Hessian order is refuted on the model; a "
           "receiver-operand that AllocForTwo reallocates is covered when it is a constant: step_dyadic_any_receiver), coefficient "
           "correctness of Neg Sin Cos Sinh Cosh Tan Tanh Exp Log Log1p Pow(const) and of the dyadic entries Add Sub Mul Div "
           "Pow(variable exponent, x>0) along every curve; Erf Erfc Gamma Lgamma LogErfc Mlgamma GammaP BesselI relative to the "
           "defining relations of the special functions (hypotheses of the statements), one- and two-argument chain-rule bridges, "
           "storage operations (SetVariable of HEAD 8241a1e on any well-formed receiver, recycled storage included), frames of every model "
           "step for every carrier, ad_sound for expression trees compiled to SSA register programs, its extension to DAGs (let-bound "
           "shared sub-results) with composite nodes Logistic Sigmoid Sqrt Abs Min Max LogAdd (program computes the closed-form jet; "
           "jets are derivatives for the let-free fragment over table operations, Logistic, Sigmoid, Sqrt), composite programs Logistic, "
           "Sigmoid, Log1pExp (4 branches), Sqrt, Abs off 0, Min, Max, LogAdd for ANY receiver (accumulator pattern c.LogAdd(c, b, t) "
           "included) with its coefficients proved to be derivatives along every curve, LogSub (+ -Inf short cuts for every carrier), the "
           "reductions Mtrace, Vmean, VdotV, Vnorm, Mnorm (sum of squares as coded), SmoothMax for a reused OR fresh accumulator, and "
           "LogSmoothMax in two halves: for every carrier with the three -Inf laws (proved for the binary64 replay carrier) the program "
           "equals the one whose first iteration is Set (PropsLSM.logsmoothmax_first_iteration_is_set), and over the reals that program "
           "leaves the jet of exp(LSE(alpha x + ln x) - LSE(alpha x)) whose value is the SmoothMax quotient on positive elements. "
           "NOT proved: derivative-of-the-denoted-function for Abs / Min / Max DAG nodes (only their closed-form jets) and the integration "
           "of logadd_coefficients_along_curves / lse_step into dag_jets_are_derivatives (the LogSmoothMax jet is built from lse_step "
           "closed forms and table entries, not stated as partial derivatives of one real function), LogBesselI coefficients, F-ALLOC cases "
           "(a receiver-operand of a different non-zero shape: property C08). Binary64/binary32 rounding is covered per sampled case: "
           "bit-exact single-step replay "
           "of every operation (libm results supplied as oracle; deterministic streams for restarted registers with stale raw content, "
           "Pow with a magic exponent, and the full enumeration method x {generic, concrete} x alias pattern x {Real64, Real32} at "
           "order 2 / N >= 2 with dense non-proportional operand gradients, in-place programs and in-place typed vector/matrix "
           "element-wise methods) and Coq-Interval certificates |model_R - Go| <= 2^-40 relative for the elementary operations and "
           "depth<=3 DAGs. The hunt now carries closed forms (value, gradient, Hessian) of the seven reductions. "
           "Round 7: PropsLSM.logadd_temporary_bounded (over the reals, either operand order, any separation: exp is called on min - max <= 0 "
           "and the temporary ends in (0, ln 2]) and stationary_point_overwrites_stale_slots / stationary_point_two_arguments (a coefficient "
           "that is exactly 0 still overwrites a stale slot of a reused receiver); the float-carrier statement 'no intermediate overflows for "
           "finite operands' is NOT proved (it is sampled: bit-exact replay of LogAdd / LOGADD at 18 operand pairs up to 1e300 apart and the 8 "
           "+-Inf combinations x {fresh receiver, c = a} x {Real64, Real32}, and of 24 exact-stationary-point steps per (kind, order, N) on receivers with stale "
           "raw content; the hunt anchors every slot of LogAdd at those pairs, LogSmoothMax with far-apart elements, the reductions at vectors "
           "with exact zero components, and compares fresh vs reused receivers at 24 stationary sites).")
CORPUS = os.path.join(vlib.ROOT, "corpus/C01/corpus.jsonl")


def known_list():
    fs = list(vlib.known_findings("C01"))
    p = os.path.join(vlib.ROOT, "corpus/C01/known_findings_proposed.json")
    if os.path.exists(p):
        have = {f.get("id") for f in fs}
        fs += [f for f in json.load(open(p)) if f.get("id") not in have]
    return fs


def is_known(hit):
    for f in known_list():
        if f.get("match", {}).get("site") == hit.get("site"):
            return f
    return None


def translate(ctx):
    """T1: regenerate coq/C01/Ops_gen.v from the scalar sources of vlib.REPO.  Returns a list of failures."""
    tool, tlog = vlib.build_tool("go2coq_c01", "go2coq_c01")
    if tool is None:
        ctx.oblige(1, 0)
        return [{"target": "go2coq_c01 build", "lemma": None, "errors": [tlog[-1500:]]}]
    gen = os.path.join(ctx.dir, "Ops_gen.v")
    rep = os.path.join(ctx.dir, "ops_gen_report.json")
    rc, out = vlib.sh([tool, "-repo", vlib.REPO, "-out", gen, "-report", rep], timeout=120, env=vlib.go_env())
    if not os.path.exists(gen) or not os.path.exists(rep):
        ctx.oblige(1, 0)
        return [{"target": "go2coq_c01 run", "lemma": None, "errors": [out[-1500:]]}]
    report = json.load(open(rep))
    ctx.cov["translator"] = report
    ok = rc == 0 and bool(report.get("ok"))
    ctx.oblige(1, 1 if ok else 0)
    failures = [] if ok else [{"target": "go2coq_c01 (parse errors or no combinator call site found)", "lemma": None,
                               "errors": [(report.get("parse_errors") or out)[-1500:]]}]
    new = open(gen).read()
    committed_path = os.path.join(vlib.ROOT, "coq", "C01", "Ops_gen.v")
    committed = open(committed_path).read() if os.path.exists(committed_path) else ""
    ctx.cov["ops_gen_changed"] = new != committed
    if new != committed:
        # which methods read differently now: the hunt is aimed at them
        def blocks(txt):
            return set(b.strip() for b in re.split(r"(?m)^  (?=mkEntry|mkBody|mkLoop|mkPred|mkUntied)", txt))
        changed = sorted(set(re.findall(r'^mk\w+ "\w+" "(\w+)"', b)[0] for b in blocks(new) ^ blocks(committed)
                             if re.match(r'mk\w+ "\w+" "(\w+)"', b)))
        # a predicate has no sweep of its own: aim the hunt at the operations that branch on it
        users = {"Sign": ["Abs"], "SIGN": ["Abs"], "Greater": ["LogAdd"], "GREATER": ["LogAdd"], "Smaller": ["Min", "Max"], "SMALLER": ["Min", "Max"]}
        changed = sorted(set(changed) | set(u for m in changed for u in users.get(m, [])))
        ctx.cov["ops_gen_changed_methods"] = changed
        if os.path.abspath(vlib.REPO) == "/repo":
            open(committed_path, "w").write(new)
            ctx.log("Ops_gen.v regenerated from %s differs from the previous one (%s): proofs are re-checked against it"
                    % (vlib.REPO, ", ".join(changed)))
        else:
            # redirected run: never touch the shared tree.  Private copy of Base + C01 (compiled files included,
            # timestamps kept, so that only Ops_gen.v and what depends on it are rebuilt).
            root = os.path.join(ctx.dir, "coq")
            for d in ("Base", "C01"):
                os.makedirs(os.path.join(root, d), exist_ok=True)
                for f in glob.glob(os.path.join(vlib.ROOT, "coq", d, "*")) + glob.glob(os.path.join(vlib.ROOT, "coq", d, ".*.aux")):
                    stem = os.path.basename(f).lstrip(".").split(".")[0]
                    if stem in ("Ops_gen", "ProofsGen", "ProofsGenR", "ProofsLoop", "ProofsPred", "PropsGen") and not f.endswith(".v"):
                        continue   # compiled from the committed Ops_gen.v: must be rebuilt
                    if os.path.isfile(f):
                        shutil.copy2(f, os.path.join(root, d, os.path.basename(f)))
            open(os.path.join(root, "C01", "Ops_gen.v"), "w").write(new)
            vlib.COQ = root
            ctx.log("Ops_gen.v regenerated from %s differs (%s): proofs re-checked in private tree %s"
                    % (vlib.REPO, ", ".join(changed), root))
    return failures


def corr(ctx, binary, n):
    """bit-exact single-step correspondence; returns list of mismatching raw cases"""
    rc, out = vlib.run_harness(ctx, binary, n, extra=CORPUS)
    if rc != 0:
        ctx.violation({"obligation": "C01 harness run", "log": out[-3000:]}, False,
                      "harness failed on the implementation (crash while generating cases)")
        return []
    meta = json.load(open(os.path.join(ctx.dir, "cases.meta.json")))
    vlib.merge_meta(ctx, meta)
    if meta["histogram"].get("FRAME-VIOLATION(operand modified)"):
        ctx.notes.append("an operand register was modified by an operation (%d cases)" % meta["histogram"]["FRAME-VIOLATION(operand modified)"])
    shards = sorted(glob.glob(os.path.join(ctx.dir, "cases_*.v")), key=lambda p: int(re.findall(r"_(\d+)\.v$", p)[0]))
    r32 = os.path.join(ctx.dir, "r32_0.v")
    res = vlib.eval_shards(shards + [r32])
    ctx.oblige(len(res), sum(1 for r in res if r["ok"]))
    cases = vlib.load_jsonl(os.path.join(ctx.dir, "cases.jsonl"))
    bad = []
    for k, r in enumerate(res):
        if r["ok"]:
            continue
        if r["mism"] is None:
            ctx.violation({"obligation": "correspondence shard " + os.path.basename(r["path"]), "coqc_error": r["error"]},
                          False, "correspondence shard did not evaluate")
            continue
        if r["path"] == r32:
            ctx.violation({"obligation": "round32 self-test", "indices": r["mism"][:10]}, False,
                          "the model's float32 conversion disagrees with Go's")
            continue
        for i in r["mism"]:
            bad.append(cases[k * meta["per_shard"] + i])
    ctx.log("correspondence: %d single-step cases in %d shards, %d mismatching" % (len(cases), len(shards), len(bad)))
    return bad


def cert(ctx, binary, n):
    """Coq-Interval certificates; returns list of failing goal records"""
    rc, out = vlib.run_harness(ctx, binary, n, extra="cert")
    if rc != 0:
        ctx.violation({"obligation": "C01 harness cert run", "log": out[-3000:]}, False, "harness failed in cert mode")
        return []
    meta = json.load(open(os.path.join(ctx.dir, "cert.meta.json")))
    vlib.merge_meta(ctx, meta)
    goals = vlib.load_jsonl(os.path.join(ctx.dir, "cert.jsonl"))
    shards = sorted(glob.glob(os.path.join(ctx.dir, "cert_*.v")), key=lambda p: int(re.findall(r"_(\d+)\.v$", p)[0]))
    for p in shards:
        open(p, "a").write("Definition M : list nat := [].\nPrint M.\n")
    bad = []
    pending = list(enumerate(shards))
    rounds = 0
    done_ok = 0
    failed_shards = set()
    timeouts = {}
    while pending and rounds < 7:
        rounds += 1
        res = vlib.eval_shards([p for _, p in pending], timeout=1500)
        nxt = []
        for (k, p), r in zip(pending, res):
            if r["ok"]:
                done_ok += 1
                continue
            if "[timeout after" in (r["error"] or "") and timeouts.get(k, 0) < 2:
                # a loaded machine, not a failing goal (a shard takes ~10 s of CPU): run it again
                timeouts[k] = timeouts.get(k, 0) + 1
                nxt.append((k, p))
                continue
            failed_shards.add(k)
            ms = re.findall(r'line (\d+), characters [^\n]*\n\s*Error', r["error"] or "")
            m = re.match(r"(\d+)", ms[-1]) if ms else None
            if not m:
                ctx.violation({"obligation": "certificate shard " + os.path.basename(p), "coqc_error": (r["error"] or "")[-1500:]},
                              False, "certificate shard did not evaluate")
                continue
            line = int(m.group(1))
            lines = open(p).read().split("\n")
            gl = [i for i, l in enumerate(lines) if l.startswith("Goal certR")]
            idx = [i for i, l0 in enumerate(gl) if l0 + 1 == line]
            if not idx:
                ctx.violation({"obligation": "certificate shard " + os.path.basename(p), "coqc_error": (r["error"] or "")[-1500:]},
                              False, "certificate shard failed outside a goal")
                continue
            # which goal of the original shard is it?  goals removed so far are recorded in the file name suffix
            first = int(re.findall(r"_(\d+)\.v$", p)[0]) * meta["per_shard"]
            removed = int((re.findall(r"#skip=(\d+)", lines[0]) or ["0"])[0])
            bad.append(goals[first + removed + idx[0]])
            rest = [l for i, l in enumerate(lines) if not (l.startswith("Goal certR") and i <= gl[idx[0]])]
            rest[0] = re.sub(r" ?\(\*#skip=\d+\*\)", "", rest[0]) + " (*#skip=%d*)" % (removed + idx[0] + 1)
            open(p, "w").write("\n".join(rest))
            if any(l.startswith("Goal certR") for l in rest):
                nxt.append((k, p))
        pending = nxt
    ctx.oblige(len(shards), len(shards) - len(failed_shards))
    ctx.log("certificates: %d interval goals in %d shards, %d failing" % (len(goals), len(shards), len(bad)))
    return bad


def hunt(ctx, binary, n):
    env = dict(vlib.go_env())
    env["C01_HUNT_FOCUS"] = ",".join(ctx.cov.get("ops_gen_changed_methods") or [])
    rc, out = vlib.sh([binary, "--extra", "hunt", "--n", str(n), "--seed", str(ctx.seed), "--out", ctx.dir],
                      timeout=900, env=env)
    hp = os.path.join(ctx.dir, "hunt.json")
    if rc == 0 and os.path.exists(hp):
        return json.load(open(hp))
    ctx.violation({"obligation": "C01 hunt run", "log": out[-3000:]}, False, "hunt crashed")
    return {"found": False, "hits": [], "points": 0}


def run(ctx):
    ctx.cov["trusted_base"] = vlib.TRUSTED_BASE_COMMON + [
        "Coquelicot 3.x / Coq-Interval 4.x (certificates use vm_compute and primitive integers inside the tactic)",
        "libm / special-function results enter the bit-exact replay as logged oracle values; that math.X is the real function X is checked by the interval certificates for the elementary functions only (special functions: property C13)",
        "axioms: see 'print_assumptions' (Reals, classical logic and functional extensionality via Coquelicot)"]
    ctx.cov["partial"] = PARTIAL
    tfail = translate(ctx)
    ok, failures = vlib.proof_stage(ctx, TARGETS, PROPS)
    failures = tfail + failures
    ok = ok and not tfail
    thms = vlib.theorem_names(os.path.join(vlib.COQ, "C01/Props.v"))
    gthms = vlib.theorem_names(os.path.join(vlib.COQ, "C01/PropsGen.v"))
    lthms = vlib.theorem_names(os.path.join(vlib.COQ, "C01/PropsLSM.v"))
    if ok and ctx.tier == "thorough":
        ctx.cov["print_assumptions"] = vlib.print_assumptions("C01", [("C01.Props", thms), ("C01.PropsGen", gthms), ("C01.PropsLSM", lthms)], ctx.dir)
    binary, blog = vlib.build_harness("c01")
    if binary is None:
        ctx.violation({"obligation": "build of harness/c01 against the library", "log": blog[-3000:]}, False,
                      "tie lost: the C01 harness no longer builds against the library")
        return
    quick = ctx.tier == "quick"
    bad = corr(ctx, binary, 80 if quick else 500)
    badcert = cert(ctx, binary, 10 if quick else 40)
    h = hunt(ctx, binary, 150 if (quick and not (bad or badcert or not ok)) else 1000)
    ctx.cov["hunt_points"] = h.get("points", 0)
    unknown = []
    for hit in h.get("hits", []):
        kf = is_known(hit)
        if kf:
            ctx.known_finding(kf["id"], kf["what"])
        else:
            unknown.append(hit)
    seen = set()
    groups = {}
    for hit in unknown:
        if hit.get("class") in ("alias", "inplace", "inplace-vec"):
            groups.setdefault(hit["class"], []).append(hit["site"])
    for hit in unknown:
        key = hit["class"] if hit.get("class") in groups else hit["site"]
        if key in seen:
            continue
        seen.add(key)
        if key in groups and len(groups[key]) > 1:
            hit = dict(hit)
            hit["failure"] += " [%d sites of class %s fail: %s]" % (len(groups[key]), key, ", ".join(groups[key][:12]))
        ctx.violation({"hunt": hit, "failure": hit["failure"],
                       "broken": [f["target"] for f in failures] + (["correspondence C01.Corr.check"] if bad else []) +
                                 (["certificates C01.CorrR.certR"] if badcert else [])},
                      True, "automatic differentiation is wrong for %s at %s (order %s, %s): %s" % (
                          hit["site"], hit.get("xs"), hit.get("order"), "Real32" if hit.get("kind") == 1 else "Real64", hit["failure"]))
    if not unknown:
        for f in failures:
            ctx.violation({"obligation": f["target"], "lemma": f["lemma"], "errors": f["errors"]}, False,
                          "proof obligation no longer checks: %s %s" % (f["target"], f["lemma"] or ""))
        if bad:
            ctx.violation({"case": bad[0], "n_mismatching": len(bad),
                           "obligation": "correspondence C01.Corr.check (model vs implementation, bit-exact single step)"},
                          False, "model and implementation disagree on %d single-step case(s) (first: %s), but no input violating the property was found"
                          % (len(bad), bad[0]["ins"]["op"]))
        if badcert:
            g = badcert[0]
            ctx.violation({"cert": g, "n_failing": len(badcert), "obligation": "certificate C01.CorrR.certR"}, False,
                          "the real-number model and the implementation differ by more than the certified tolerance for %s slot %s at %s (observed %r)"
                          % (g["name"], g["slot"], g["xs"], g["obs"]))


def replay(ctx, path):
    rp = json.load(open(path))
    binary, blog = vlib.build_harness("c01")
    if binary is None:
        print(blog)
        return 2
    if "case" not in rp and "hunt" not in rp:
        print("replay names a broken obligation, not an input: %s" % rp.get("obligation"))
        tfail = translate(ctx)
        ok, failures = vlib.proof_stage(ctx, TARGETS, PROPS)
        return 0 if (ok and not tfail) else 1
    vlib.sh([binary, "--replay", path, "--out", ctx.dir], env=vlib.go_env())
    res = json.load(open(os.path.join(ctx.dir, "replay_result.json")))
    fail = False
    if res.get("case_reexecuted"):
        ev = vlib.eval_shards(sorted(glob.glob(os.path.join(ctx.dir, "replay_*.v"))))
        agree = all(r["ok"] for r in ev)
        print("model/implementation agree on the replayed step: %s" % agree)
        fail = fail or not agree
    if "hunt_still_fails" in res:
        print("property oracle on the implementation: %s" % (res.get("failure") if res["hunt_still_fails"] else "holds"))
        fail = fail or res["hunt_still_fails"]
    return 1 if fail else 0
