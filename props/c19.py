"""C19 — the ordered integer index (AVL tree) behaves as a balanced set under any history."""
import glob, json, os
import vlib

TARGETS = ["Base/Corr.vo", "C19/Model.vo", "C19/ModelP.vo", "C19/Corr.vo", "C19/Spec.vo", "C19/SpecTest.vo",
           "C19/ProofsRot.vo", "C19/ProofsList.vo", "C19/ProofsLookup.vo", "C19/ProofsIns.vo", "C19/ProofsDel.vo",
           "C19/ProofsRun.vo", "C19/ProofsIter.vo", "C19/ProofsIds.vo", "C19/ProofsPar.vo", "C19/ProofsNext.vo", "C19/Proofs.vo",
           "C19/Props.vo"]
PROPS = ["C19/Props.v"]
PARTIAL = ("Proved in Coq for ALL operation histories with int64 keys, about the hand-written model coq/C19/Model.v: "
           "(1) every tree of every reachable world is a search tree whose balance fields equal the height difference "
           "and lie in -1..1 (hence 2^(h/2) <= n+1); (2) the whole observable run (Insert/Delete flags, FindNode, "
           "FindNodeLE, Clone, key lists, iterator creation/clone/Next incl. live iterators under interleaved "
           "Insert/Delete/Clone and the MaxInt cursor) equals the run of the set-level specification; complete "
           "iterations visit exactly the keys (>= i for IteratorFrom) ascending; (3) insert/delete refine sadd/sdel "
           "with exact flags and height change; (4) node ids stay distinct, tombstones are disjoint from live nodes and "
           "an iterator's node is always live or tombstoned; (5) for all Insert/Delete histories the pointer-level model "
           "coq/C19/ModelP.v (Parent updated where avl-tree.go does it) keeps stored parent = structural parent and "
           "erases to Model.v, and the transliterated successor walk of AvlIterator.Next through the stored Parent "
           "pointers equals the structural successor used by Model.v. NOT proved: ModelP.v covers one tree under "
           "Insert/Delete (Clone's pointer copying is modelled in Model.v as sharing the immutable tree value; the "
           "world-level iterator model uses the structural successor, justified by (5)). Model.v/ModelP.v are tied to the implementation by the "
           "correspondence only (every step of every generated history: flags, values, checksum of the preorder dump "
           "of Value/Balance/Parent value; the harness also rejects any step where Go's stored Parent differs from the "
           "structural parent or a reachable node is flagged Deleted). int is modelled as Z with the int64 wrap written "
           "explicitly where the code computes value+1.")


def corr(ctx, binary, n, corpus):
    rc, out = vlib.run_harness(ctx, binary, n, extra=corpus)
    if rc != 0:
        ctx.violation({"obligation": "C19 harness run", "log": out[-3000:]}, False,
                      "harness failed on the implementation (crash while generating histories)")
        return []
    meta = json.load(open(os.path.join(ctx.dir, "cases.meta.json")))
    vlib.merge_meta(ctx, meta)
    shards = sorted(glob.glob(os.path.join(ctx.dir, "cases_*.v")))
    res = vlib.eval_shards(shards)
    ctx.oblige(len(res), sum(1 for r in res if r["ok"]))
    cases = vlib.load_jsonl(os.path.join(ctx.dir, "cases.jsonl"))
    bad = []
    for k, r in enumerate(res):
        if r["ok"]:
            continue
        if r["mism"] is None:
            ctx.violation({"obligation": "correspondence shard " + os.path.basename(r["path"]),
                           "coqc_error": r["error"]}, False, "correspondence shard did not evaluate")
            continue
        for i in r["mism"]:
            bad.append(cases[k * meta["per_shard"] + i])
    ctx.log("correspondence: %d cases in %d shards, %d mismatching" % (len(cases), len(res), len(bad)))
    return bad


def hunt(ctx, binary, bad, why):
    """Search for a history on which the property itself fails on the implementation."""
    rp = os.path.join(ctx.dir, "hunt_in.json")
    json.dump({"cases": bad[:50]}, open(rp, "w"))
    n = 3000 if ctx.tier == "quick" else 30000
    rc, out = vlib.sh([binary, "--extra", "hunt", "--replay", rp, "--n", str(n), "--seed", str(ctx.seed),
                       "--out", ctx.dir], timeout=900, env=vlib.go_env())
    hp = os.path.join(ctx.dir, "hunt.json")
    if rc == 0 and os.path.exists(hp):
        h = json.load(open(hp))
        if h.get("found"):
            return h
    return None


def is_known(h):
    for f in vlib.known_findings("C19"):
        w = f.get("match", {})
        if w.get("failure_contains") and w["failure_contains"] in h.get("failure", ""):
            ops = h["case"]["ops"]
            need = w.get("needs_key")
            if need is None or any(o.get("i") == need for o in ops):
                return f
    return None


def run(ctx):
    ctx.cov["trusted_base"] = vlib.TRUSTED_BASE_COMMON + ["axioms: see 'print_assumptions' (expected: closed under the global context)"]
    ctx.cov["partial"] = PARTIAL
    ok, failures = vlib.proof_stage(ctx, TARGETS, PROPS)
    thms = vlib.theorem_names(os.path.join(vlib.COQ, "C19/Props.v"))
    if ok:
        ctx.cov["print_assumptions"] = vlib.print_assumptions("C19", [("C19.Props", thms)], ctx.dir)
    binary, blog = vlib.build_harness("c19")
    if binary is None:
        ctx.violation({"obligation": "build of harness/c19 against /repo", "log": blog[-3000:]}, False,
                      "tie lost: the C19 harness no longer builds against /repo")
        return
    n = 300 if ctx.tier == "quick" else 4000
    bad = corr(ctx, binary, n, os.path.join(vlib.ROOT, "corpus/C19/corpus.jsonl"))
    # known findings are replayed on the implementation on every run
    h0 = None
    if bad or not ok or True:
        h0 = hunt(ctx, binary, bad, "")
    if h0:
        kf = is_known(h0)
        if kf:
            ctx.known_finding(kf["id"], kf["what"])
            h0 = None if not bad else h0
    if bad or not ok:
        if h0 and not is_known(h0):
            ctx.violation({"case": h0["case"], "failure": h0["failure"], "at": h0["at"],
                           "broken": [f["target"] for f in failures] + (["correspondence C19.Corr.check"] if bad else [])},
                          True, "AVL index violates the set/balance/iterator semantics: " + h0["failure"])
        else:
            for f in failures:
                ctx.violation({"obligation": f["target"], "lemma": f["lemma"], "errors": f["errors"]}, False,
                              "proof obligation no longer checks: %s %s" % (f["target"], f["lemma"] or ""))
            if bad:
                ctx.violation({"case": bad[0], "obligation": "correspondence C19.Corr.check (model vs implementation)"},
                              False, "model and implementation disagree on a history, but no history violating the property was found")
    elif h0:
        ctx.violation({"case": h0["case"], "failure": h0["failure"], "at": h0["at"]}, True,
                      "AVL index violates the set/balance/iterator semantics: " + h0["failure"])


def replay(ctx, path):
    rp = json.load(open(path))
    binary, blog = vlib.build_harness("c19")
    if binary is None:
        print(blog); return 2
    if "case" not in rp:
        print("replay names a broken obligation, not an input: %s" % rp.get("obligation"))
        ok, failures = vlib.proof_stage(ctx, TARGETS, PROPS)
        return 0 if ok else 1
    rc, out = vlib.sh([binary, "--replay", path, "--out", ctx.dir], env=vlib.go_env())
    res = vlib.eval_shards(sorted(glob.glob(os.path.join(ctx.dir, "replay_*.v"))))
    hin = os.path.join(ctx.dir, "hunt_in.json")
    json.dump({"cases": [rp["case"]]}, open(hin, "w"))
    vlib.sh([binary, "--extra", "hunt", "--replay", hin, "--n", "0", "--out", ctx.dir], env=vlib.go_env())
    h = json.load(open(os.path.join(ctx.dir, "hunt.json")))
    agree = all(r["ok"] for r in res)
    print("model/implementation agree on the replayed history: %s" % agree)
    print("property oracle on the implementation: %s" % (h["failure"] if h.get("found") else "holds"))
    return 1 if (h.get("found") or not agree) else 0
