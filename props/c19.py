"""C19 — the ordered integer index (AVL tree) behaves as a balanced set under any history."""
import glob, json, os
import vlib

TARGETS = ["Base/Corr.vo", "C19/Model.vo", "C19/ModelP.vo", "C19/ModelW.vo", "C19/Corr.vo", "C19/Spec.vo", "C19/SpecTest.vo",
           "C19/ProofsRot.vo", "C19/ProofsList.vo", "C19/ProofsLookup.vo", "C19/ProofsIns.vo", "C19/ProofsDel.vo",
           "C19/ProofsRun.vo", "C19/ProofsIter.vo", "C19/ProofsIds.vo", "C19/ProofsPar.vo", "C19/ProofsNext.vo", "C19/Proofs.vo",
           "C19/Props.vo",
           "C19/ProofsW1.vo", "C19/ProofsW2.vo", "C19/ProofsW3.vo", "C19/ProofsW4.vo", "C19/ProofsFlag.vo",
           "C19/ProofsW6.vo", "C19/ProofsW5.vo", "C19/PropsW.vo",
           "C19/ModelH.vo", "C19/ProofsH1.vo", "C19/ProofsH2.vo", "C19/ProofsH3.vo", "C19/ProofsH4.vo", "C19/ProofsH5.vo",
           "C19/ProofsH6.vo", "C19/ProofsH7.vo", "C19/ProofsSafe.vo", "C19/PropsH.vo"]
PROPS = ["C19/Props.v", "C19/PropsW.v", "C19/PropsH.v"]
PARTIAL = ("Proved in Coq for ALL operation histories with int64 keys. About the value-level world model coq/C19/Model.v: "
           "(1) every tree of every reachable world is a search tree whose balance fields equal the height difference "
           "and lie in -1..1 (hence 2^(h/2) <= n+1); (2) the whole observable run (Insert/Delete flags, FindNode, "
           "FindNodeLE, Clone, key lists, iterator creation/clone/Next incl. live iterators under interleaved "
           "Insert/Delete/Clone and the MaxInt cursor) equals the run of the set-level specification; complete "
           "iterations visit exactly the keys (>= i for IteratorFrom) ascending; (3) insert/delete refine sadd/sdel "
           "with exact flags and height change; (4) node ids stay distinct, tombstones are disjoint from live nodes. "
           "About the pointer-level world model coq/C19/ModelW.v (one heap of node objects with a global allocator, "
           "several trees with STORED Parent pointers updated where avl-tree.go updates them, Clone's pointer copying "
           "incl. the copied Parent field of the root, unlinked objects kept with Deleted=true and their stale pointers, "
           "iterators holding a node pointer, Next with its three branches): (5) in every reachable world stored parents "
           "= structural parents in every tree, the regions of different trees are address-disjoint, every pointer stored "
           "in a region (incl. stale ones of tombstones) points into that region, iterators never dangle; (6) Clone "
           "allocates only fresh objects, its stored parents are those of the clone, it holds no pointer into the source, "
           "and any step / history not mutating tree j leaves tree j's heap cells unchanged (frame); (7) the pointer-level "
           "Next equals the value-level Next, the climb through stored parents is taken only from a reachable, untombstoned "
           "node with unchanged value, and the pointer-level world refines the set specification for every history "
           "(hence observes what Model.v observes); (8) Deleted flag: delete flags the found object in all three cases, the "
           "flagged object is exactly the one leaving the reachable set, a cell is flagged iff unreachable, regions never "
           "lose objects; (9) the balanced flag of insert/delete/deleteRec/balance1/balance2 is true iff the subtree height "
           "did not change, with balance1/balance2's flag given per branch. "
           "About the statement-level model coq/C19/ModelH.v (the literal statement lists of setLeft, setRight, rotateLL/LR/RR/RL, "
           "replace, balance1, balance2, REGENERATED from avl-tree.go by go2coq_c19 on every run with Coq checking gen_body m = body m, "
           "and an interpreter on a flat heap of node objects where a nil dereference is a panic): (10) on ANY heap holding a tree "
           "of the shape the rotation dereferences (addresses distinct) each of the four rotation statement lists does not panic, "
           "leaves a heap holding exactly ModelP.protLL/LR/RR/RL of the tree and writes to no other object; setLeft/setRight are the "
           "child-pointer + Parent update on any heap; replace leaves the node ModelP.pdel builds and the nil-pointer tombstone "
           "ModelW.stale_cell records, returns node, frame. (11) SafeIterator/SafeIteratorFrom (= Clone; Iterator[From] on a clone only "
           "the iterator references; also indexSafeIterator[From]): in every reachable world and for any later history not mutating "
           "the hidden clone, the iterator starts on the least key (>= i) of the source at creation, the clone's key list stays that "
           "snapshot, and every Next moves to the first SNAPSHOT key greater than the cursor. (12) balance1 / balance2 (the rebalancing step of "
           "delete and deleteRec): on ANY heap holding a tree whose root has Balance in -1..1 and the heavy-side child (and inner grandchild "
           "when that child leans inwards) the code dereferences, the statement list — its rotation calls being the statement lists of (10) run "
           "through the call statement — does not panic, leaves a heap holding exactly fst (ModelP.pbalance1/2 t) (incl. the single rotation "
           "with a balanced child and the double rotation with a balanced two-child pivot, which only the delete path reaches), writes to no "
           "other object and returns balanced = snd (pbalance1/2 t) || caller's flag; Balance = 1 without a right child panics; the shape "
           "hypothesis follows from the invariant of (1) at the call sites (both subtrees AVL, Balance field still the height difference from "
           "before one subtree lost a level). NOT proved: the recursive insert/delete/deleteRec are "
           "modelled tree-shaped (ModelP), not as statement lists on the heap, so the step heap-level recursion -> pins/pdel/pdelmax "
           "(which call the statement-level methods proved above) rests on the correspondence: every step of every generated history is "
           "compared on flags, values, tree checksum (read through Emtpy/Value/Left/Right), key lists and on a checksum of the WHOLE heap as Go has it (node "
           "identities numbered in allocation order, Left/Right/Parent pointers, Deleted flags, unlinked objects with the "
           "fields they were left with, the node pointer of every iterator via the add-only hook verif_c19.go; Safe iterators are one "
           "Go call compared with the two model steps Clone; Iterator[From], the hidden clone's objects included; one third of the "
           "histories run through the vector_sparse_index.go wrappers via verif_c19h.go, where indexInsert/indexDelete drop the flag "
           "and it is observed as a change of the number of reachable objects; one fifth of the histories start from an AVL shape built "
           "without rotations followed by ONE deletion that reaches rotateLR/rotateRL from balance2/balance1 (leaf, one-child, two-children "
           "delete, inside deleteRec, at and below the root, mirrored, scaled) with a BALANCED pivot holding TWO children — counted on the "
           "real tree by a read-only detector, the plugin requires the count to be positive —, one fifth contain SafeIteratorFrom(lo) "
           "followed by inserts/deletes on the SOURCE at lo..lo+8 interleaved with Next on the safe iterator). AvlNode.string / AvlTree.String are not modelled. The "
           "refinement ModelW -> Model is an equation for every step other than Clone (erase(pwstep w o) = step(erase w) o on "
           "trees, tombstones, iterators and the complete output, up to Model.v's per-tree allocation counters) and "
           "observational across Clone (same output, shape-equal appended tree; both worlds refine the set specification) "
           "because Model.v's Clone reuses node ids while the pointer model allocates fresh objects. int is modelled as Z with the int64 wrap written explicitly where the code computes value+1.")


def translate(ctx):
    """Regenerate the statement lists of the non-recursive AvlNode methods from vlib.REPO/avl-tree.go and let
    Coq decide that they are the lists of coq/C19/ModelH.v (the ones the PropsH theorems are about)."""
    tool, tlog = vlib.build_tool("go2coq_c19", "go2coq_c19")
    if tool is None:
        ctx.oblige(1, 0)
        return [{"target": "go2coq_c19 build", "lemma": None, "errors": [tlog[-1500:]]}]
    gen = os.path.join(ctx.dir, "GenAvl.v")
    rep = os.path.join(ctx.dir, "gen_report.json")
    for f in (gen, rep):
        if os.path.exists(f):
            os.remove(f)
    rc, out = vlib.sh([tool, "-repo", vlib.REPO, "-out", gen, "-report", rep], timeout=120, env=vlib.go_env())
    if not os.path.exists(rep):
        ctx.oblige(1, 0)
        return [{"target": "go2coq_c19 run", "lemma": None, "errors": [out[-1500:]]}]
    report = json.load(open(rep))
    ctx.cov["translator"] = report
    if not report.get("ok") or not os.path.exists(gen):
        ctx.oblige(1, 0)
        return [{"target": "go2coq_c19: a method of avl-tree.go is outside the translated statement grammar (tie lost)",
                 "lemma": None, "errors": [json.dumps(report.get("unsupported") or report.get("parse_errors"))[:1500]]}]
    rc, out = vlib.coqc_file(gen, timeout=300)
    ctx.oblige(1, 1 if rc == 0 else 0)
    if rc != 0:
        errs = vlib.coq_errors(out)
        lemma = vlib.enclosing_lemma(gen, errs[0]["line"]) if errs else None
        return [{"target": "GenAvl.v: the statement list regenerated from avl-tree.go is not the one of coq/C19/ModelH.v",
                 "lemma": lemma, "errors": errs[:3] or [out[-800:]]}]
    ctx.log("translator: 9 method bodies of avl-tree.go regenerated; Coq: gen_body m = ModelH.body m for every m")
    return []


def corr(ctx, binary, n, corpus):
    rc, out = vlib.run_harness(ctx, binary, n, extra=corpus)
    if rc != 0:
        ctx.violation({"obligation": "C19 harness run", "log": out[-3000:]}, False,
                      "harness failed on the implementation (crash while generating histories)")
        return []
    meta = json.load(open(os.path.join(ctx.dir, "cases.meta.json")))
    vlib.merge_meta(ctx, meta)
    # round 7: the configurations only the delete path / a live safe iterator reach must be generated
    hist = meta.get("histogram", {})
    dbl = hist.get("del:double-rotation-with-balanced-two-child-pivot(histories)", 0)
    burst = hist.get("directed:safe-from-burst", 0)
    ctx.log("generator: %d histories with a deletion reaching a double rotation with a balanced two-child pivot, "
            "%d with SafeIteratorFrom + mutation of the source during the iteration" % (dbl, burst))
    if n >= 100 and (dbl == 0 or burst == 0):
        ctx.violation({"obligation": "C19 generator coverage", "double_rotation_balanced_pivot": dbl, "safe_from_burst": burst},
                      False, "the generated histories no longer reach the delete-path double rotation with a balanced "
                      "two-child pivot / the safe-iterator burst (detector of harness/c19/directed.go on the real tree)")
    # numeric order (cases_10.v sorts after cases_9.v): mismatch indices are mapped back to cases.jsonl
    shards = sorted(glob.glob(os.path.join(ctx.dir, "cases_*.v")),
                    key=lambda p: int(os.path.basename(p)[len("cases_"):-2]))
    res = vlib.eval_shards(shards)
    ctx.oblige(len(res), sum(1 for r in res if r["ok"]))
    cases = vlib.load_jsonl(os.path.join(ctx.dir, "cases.jsonl"))
    bad = []
    for k, r in enumerate(res):
        if r["ok"]:
            continue
        if r["mism"] is None:
            ctx.violation({"obligation": "correspondence shard " + os.path.basename(r["path"]),
                           "coqc_error": r["error"]}, False, "correspondence shard did not evaluate")
            continue
        for i in r["mism"]:
            bad.append(cases[k * meta["per_shard"] + i])
    ctx.log("correspondence: %d cases in %d shards, %d mismatching" % (len(cases), len(res), len(bad)))
    return bad


def hunt(ctx, binary, bad, why):
    """Search for a history on which the property itself fails on the implementation."""
    rp = os.path.join(ctx.dir, "hunt_in.json")
    json.dump({"cases": bad[:50]}, open(rp, "w"))
    n = 3000 if ctx.tier == "quick" else 30000
    rc, out = vlib.sh([binary, "--extra", "hunt", "--replay", rp, "--n", str(n), "--seed", str(ctx.seed),
                       "--out", ctx.dir], timeout=900, env=vlib.go_env())
    hp = os.path.join(ctx.dir, "hunt.json")
    if rc == 0 and os.path.exists(hp):
        h = json.load(open(hp))
        if h.get("found"):
            return h
    return None


def is_known(h):
    for f in vlib.known_findings("C19"):
        w = f.get("match", {})
        if w.get("failure_contains") and w["failure_contains"] in h.get("failure", ""):
            ops = h["case"]["ops"]
            need = w.get("needs_key")
            if need is None or any(o.get("i") == need for o in ops):
                return f
    return None


def run(ctx):
    ctx.cov["trusted_base"] = vlib.TRUSTED_BASE_COMMON + ["axioms: see 'print_assumptions' (expected: closed under the global context)"]
    ctx.cov["partial"] = PARTIAL
    ok, failures = vlib.proof_stage(ctx, TARGETS, PROPS)
    thms = vlib.theorem_names(os.path.join(vlib.COQ, "C19/Props.v"))
    thmsw = vlib.theorem_names(os.path.join(vlib.COQ, "C19/PropsW.v"))
    thmsh = vlib.theorem_names(os.path.join(vlib.COQ, "C19/PropsH.v"))
    if ok:
        ctx.cov["print_assumptions"] = vlib.print_assumptions(
            "C19", [("C19.Props", thms), ("C19.PropsW", thmsw), ("C19.PropsH", thmsh)], ctx.dir)
    tf = translate(ctx)
    if tf:
        ok = False
        failures = failures + tf
    binary, blog = vlib.build_harness("c19")
    if binary is None:
        ctx.violation({"obligation": "build of harness/c19 against /repo", "log": blog[-3000:]}, False,
                      "tie lost: the C19 harness no longer builds against /repo")
        return
    n = 300 if ctx.tier == "quick" else 4000
    bad = corr(ctx, binary, n, os.path.join(vlib.ROOT, "corpus/C19/corpus.jsonl"))
    # known findings are replayed on the implementation on every run
    h0 = None
    if bad or not ok or True:
        h0 = hunt(ctx, binary, bad, "")
    if h0:
        kf = is_known(h0)
        if kf:
            ctx.known_finding(kf["id"], kf["what"])
            h0 = None if not bad else h0
    if bad or not ok:
        if h0 and not is_known(h0):
            ctx.violation({"case": h0["case"], "failure": h0["failure"], "at": h0["at"],
                           "broken": [f["target"] for f in failures] + (["correspondence C19.Corr.check"] if bad else [])},
                          True, "AVL index violates the set/balance/iterator semantics: " + h0["failure"])
        else:
            for f in failures:
                ctx.violation({"obligation": f["target"], "lemma": f["lemma"], "errors": f["errors"]}, False,
                              "proof obligation no longer checks: %s %s" % (f["target"], f["lemma"] or ""))
            if bad:
                ctx.violation({"case": bad[0], "obligation": "correspondence C19.Corr.check (model vs implementation)"},
                              False, "model and implementation disagree on a history, but no history violating the property was found")
    elif h0:
        ctx.violation({"case": h0["case"], "failure": h0["failure"], "at": h0["at"]}, True,
                      "AVL index violates the set/balance/iterator semantics: " + h0["failure"])


def replay(ctx, path):
    rp = json.load(open(path))
    binary, blog = vlib.build_harness("c19")
    if binary is None:
        print(blog); return 2
    if "case" not in rp:
        print("replay names a broken obligation, not an input: %s" % rp.get("obligation"))
        ok, failures = vlib.proof_stage(ctx, TARGETS, PROPS)
        return 0 if ok else 1
    rc, out = vlib.sh([binary, "--replay", path, "--out", ctx.dir], env=vlib.go_env())
    res = vlib.eval_shards(sorted(glob.glob(os.path.join(ctx.dir, "replay_*.v"))))
    hin = os.path.join(ctx.dir, "hunt_in.json")
    json.dump({"cases": [rp["case"]]}, open(hin, "w"))
    vlib.sh([binary, "--extra", "hunt", "--replay", hin, "--n", "0", "--out", ctx.dir], env=vlib.go_env())
    h = json.load(open(os.path.join(ctx.dir, "hunt.json")))
    agree = all(r["ok"] for r in res)
    print("model/implementation agree on the replayed history: %s" % agree)
    print("property oracle on the implementation: %s" % (h["failure"] if h.get("found") else "holds"))
    return 1 if (h.get("found") or not agree) else 0
