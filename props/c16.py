"""C16 — estimators return likelihood maximisers; EM never decreases the likelihood."""
import glob, json, os, time
import vlib

TARGETS = ["Base/Num.vo", "Base/Corr.vo", "C16/Model.vo", "C16/Spec.vo", "C16/ProofsMax.vo", "C16/ProofsEM.vo",
           "C16/ProofsModel.vo", "C16/Corr.vo", "C16/ProofsCorr.vo", "C16/ModelHmm.vo", "C16/ProofsBW.vo",
           "C16/ProofsBW2.vo", "C16/ProofsBW3.vo", "C16/ProofsClamp.vo", "C16/Corr2.vo", "C16/ModelVec.vo", "C16/Corr3.vo", "C16/ProofsCorr3.vo", "C16/ProofsVec.vo", "C16/ProofsDet.vo",
           "C16/ModelNest.vo", "C16/ProofsNest.vo", "C16/Corr5.vo",
           "C16/ModelObj.vo", "C16/ProofsObj.vo", "C16/ModelNum.vo", "C16/ProofsNum.vo", "C16/ProofsBatch.vo", "C16/Corr6.vo",
           "C16/SpecTest.vo", "C16/Props.vo"]
PROPS = ["C16/Props.v"]
CORPUS = os.path.join(vlib.ROOT, "corpus/C16/corpus.jsonl")
CORPUS2 = os.path.join(vlib.ROOT, "corpus/C16/corpus2.jsonl")
LAG_WITNESS = os.path.join(vlib.ROOT, "corpus/C16/lag_witness.json")
PROPOSED = os.path.join(vlib.ROOT, "corpus/C16/known_findings_proposed.json")
CORPUS3 = os.path.join(vlib.ROOT, "corpus/C16/corpus3.jsonl")
VCLAMP_WITNESS = os.path.join(vlib.ROOT, "corpus/C16/vclamp_witness.json")
KINDS3 = ("vnormal", "sid", "siid", "negbin", "logreg", "emnormal")
CORPUS5 = os.path.join(vlib.ROOT, "corpus/C16/corpus5.jsonl")
KINDS5 = ("nest", "summ")
CORPUS6 = os.path.join(vlib.ROOT, "corpus/C16/corpus6.jsonl")
SID_WITNESS = os.path.join(vlib.ROOT, "corpus/C16/sid_stale_witness.json")
KINDS6 = ("seq", "emfinal", "reuse3", "num")
PARTIAL = ("Theorems are over exact real arithmetic (Coq Reals) about the hand-written models coq/C16/Model.v / ModelHmm.v / ModelVec.v "
           "with ONE worker thread; the step to binary64 is bounded per sampled case only (bit-exact replay of the scalar and the "
           "vector normal estimator, 1e-9 tolerance decided in Q for the log-scale families, the negative binomial closed form, "
           "the EM replays and the Baum-Welch replay; exp values through an Interval-certified table; three quarters of the "
           "Baum-Welch cases evaluate the model in binary64 instead of 100-bit rationals, relying on the (not machine-checked) "
           "error bound for + * / on non-negative numbers). Baum-Welch: no start / final states, categorical emissions in the tie; "
           "ascent is proved for emission M-steps satisfying the stated component hypothesis. Vector normal: the mean is proved "
           "optimal for every dimension and every covariance, the covariance for dimension 1 and for diagonal covariances of every "
           "dimension; the full covariance for EVERY dimension and every data set with a positive definite moment matrix "
           "(vector_normal_full_covariance_is_maximiser[_over_spd_precisions]: ln det L + ln det S <= tr(L S) - d through triangular factors, "
           "Cholesky existence by Schur-complement induction) with ln det READ OFF a triangular factor (sum 2 ln T_ii; no Leibniz determinant, "
           "no multiplicativity of det formalised) and singular moment matrices excluded; the SigmaMin clamp is proved to return the "
           "(constrained) maximiser when it is inactive, and for a diagonal moment matrix only against diagonal competitors (finding "
           "F-VNORMAL-CLAMP otherwise); per case the certified perturbation check remains (scalings and shears at Go's returned "
           "parameters, skipped for ill-conditioned data and, because of F-VNORMAL-CLAMP, when the SigmaMin clamp is active in "
           "dimension >= 2); the link between the list model vn_est at R and the index-form vmean / vcov is only shown on the witness of "
           "the _refuted theorem; the Cholesky-based guards of the distribution constructor are not modelled (error outcomes are compared "
           "with an exact positive-definiteness / determinant-underflow test); NormalSteinEstimator is a shrinkage estimator, not a "
           "likelihood maximiser, and is not covered. scalarId / scalarIid: componentwise theorem over the model, tie through the scalar "
           "component checks; scalarIid with log-weights is only exercised for vectors of dimension 1 (the weights are consumed per pooled "
           "coordinate). Numeric estimators: NO theorem about the iteration (SAGA, Newton); logistic regression is tied by its own "
           "observable only — Coq-Interval certifies that every component of the average log-likelihood gradient at Go's returned "
           "(converged) theta is below 2^-20 — and scalarEstimator/numeric.go (NumericEstimator) is not exercised. EM with normal "
           "components: single-step replay in 100-bit rationals from Go's hook state (argument of exp evaluated in binary64 and checked "
           "against its exact value to 2^-40), unweighted data, plain MixtureEstimator. The normal perturbation checks are skipped for "
           "ill-conditioned data (exact variance < 2^-20 E[x^2]) where E[x^2]-E[x]^2 cancels in binary64. "
           "Nested estimators (round 5): mixture-of-mixtures ascent is proved for ONE level of nesting with exact leaf M-steps; for a mixture "
           "used as HMM emission only the inner step is proved (nested_hmm_emission_step_partial: the composition with the Baum-Welch theorem "
           "over the (sequence, position) index is not carried out); the summarised = unsummarised theorems are over R for summaries given as "
           "index maps, linked to the executable summary by summary_index_is_sound and compared with NewMixtureSummarizedDataSet per case; the "
           "HmmSummarizedDataSet (not reachable from any estimator) is not modelled; the nested tie replays the REFERENCE run (no summary) "
           "step by step (Baum-Welch part of the larger HMM cases in binary64) and compares the run on the configuration as given with it "
           "(error iff the model's guard refuses; otherwise the same trajectory to 1e-7); one leaf family per case, <= 3 leaves per inner mixture. "
           "Estimator objects (round 6): the object model ModelObj.v (SetData by reference, Initialize / NewObservation / updateEstimate keeping the "
           "accumulators on a constructor error / Estimate / EstimateOnData / GetEstimate, caller writes into the installed vector) is ONE text for all "
           "closed-form scalar estimators and is proved history-independent for EVERY family; the families are instantiated and linked to Model.v's "
           "estimator functions for normal, exponential, geometric and Poisson (Poisson for gamma of the data's length), NOT for categorical and negative "
           "binomial (categorical is tied through the recording family only); ONE worker thread; Poisson's NewObservation returning early for x < 0 before "
           "it touches nil accumulators is not modelled (not generated); bit-exact object replay for normal only, the log-scale families are judged per call "
           "with the round-1 checks on the observations the model says reached the accumulators; vector normal / scalarId / scalarIid / negative binomial / "
           "mixture estimators re-used across calls are compared per call with the round-1/3 models and (hunt oracle) bitwise with a NEW object, their "
           "object-level copy semantics (scalarId / scalarIid copy in SetData) are in the harness, not in a Coq object model; HMM estimators re-used across "
           "calls are not exercised; known finding F-SID-STALE-FAILURE (scalarId refuses every data set after a failed call). Returned EM mixture: proved for "
           "the driver model (last hooked mixture; at least as likely as every reported likelihood given an ascending step), compared per case for "
           "Mixture/DiscreteMixture estimators with Poisson / categorical components only (not for normal-component, nested or HMM runs). "
           "Round 7: mixed batches (Initialize; NewObservation with nil and non-nil gamma in one batch; GetEstimate) are proved over R to return the "
           "weighted closed form under the effective weights for the geometric, Poisson and exponential families (ONE worker thread; categorical and "
           "normal mixed batches are only tied per case: categorical through the judged recording object, normal bit-exactly), and generated as a "
           "dedicated stream for all five scalar families; the binary64 step is per case as before. NumericEstimator (scalarEstimator/numeric.go): only "
           "the OBJECTIVE is modelled (ModelNum.v: fold over the observations, log-weight -Inf skipped, exp of the log-weight, negation, division by n) "
           "and proved to be the scaled negative weighted log-likelihood when every out-of-support observation has log-weight -Inf; it is tied bit-exactly "
           "per objective evaluation through the estimator's Hook for exponential and gamma densities (newton, bfgs; at most the first 10 evaluations of a "
           "run, evaluations at NaN variables not compared), with the per-observation log-densities at the hooked variables taken from Go as DATA (the "
           "densities' LogPdf are not modelled here), ONE worker thread (the per-thread partial sums and their merge are not modelled), the division by n "
           "and the negation are in the model but not observable through the Hook; NO theorem about the optimizers' iteration (newton / bfgs / rprop) nor "
           "about stationarity of the returned parameters; rprop is not exercised (no iteration bound in NumericEstimator), every run is cut off by the "
           "harness after 120 objective evaluations.")


def findings():
    fs = list(vlib.known_findings("C16"))
    ids = {f["id"] for f in fs}
    if os.path.exists(PROPOSED):
        for f in json.load(open(PROPOSED)).get("findings", []):
            if f.get("property") == "C16" and f["id"] not in ids:
                fs.append(f)
    return fs


def known_case(case):
    """Narrow match of a mismatching correspondence case against the known findings."""
    # F-GEOM-ALLZERO was fixed in /repo (936dc43) and retired: its witness is now a regression case of
    # corpus/C16/corpus.jsonl and a recurrence is a VIOLATION.  No correspondence-level finding is open.
    return None


def corr(ctx, binary, n):
    for pat in ("r2_*.v", "cert_r2_*.v", "r3_*.v", "cert_r3_*.v", "grad_r3_*.v", "r5_*.v", "cert_r5_*.v", "r6_*.v", "cert_r6_*.v"):
        for old in glob.glob(os.path.join(ctx.dir, pat)):
            os.remove(old)
    rc, out = vlib.run_harness(ctx, binary, n, extra=CORPUS)
    n2 = 20 if ctx.tier == "quick" else 400
    rc2, out2 = vlib.run_harness(ctx, binary, n2, extra="round2:" + CORPUS2)
    n3 = 70 if ctx.tier == "quick" else 1200
    rc3, out3 = vlib.run_harness(ctx, binary, n3, extra="round3:" + CORPUS3)
    n5 = 48 if ctx.tier == "quick" else 400
    rc5, out5 = vlib.run_harness(ctx, binary, n5, extra="round5:" + CORPUS5)
    n6 = 60 if ctx.tier == "quick" else 600
    rc6, out6 = vlib.run_harness(ctx, binary, n6, extra="round6:" + CORPUS6)
    if rc != 0 or rc2 != 0 or rc3 != 0 or rc5 != 0 or rc6 != 0:
        ctx.violation({"obligation": "C16 harness run", "log": (out if rc != 0 else out2 if rc2 != 0 else out3 if rc3 != 0 else out5 if rc5 != 0 else out6)[-3000:]}, False,
                      "harness failed on the implementation (crash while running the estimators)")
        return [], []
    meta = json.load(open(os.path.join(ctx.dir, "cases.meta.json")))
    vlib.merge_meta(ctx, meta)
    meta2 = json.load(open(os.path.join(ctx.dir, "r2.meta.json")))
    vlib.merge_meta(ctx, meta2)
    meta3 = json.load(open(os.path.join(ctx.dir, "r3.meta.json")))
    vlib.merge_meta(ctx, meta3)
    meta5 = json.load(open(os.path.join(ctx.dir, "r5.meta.json")))
    vlib.merge_meta(ctx, meta5)
    meta6 = json.load(open(os.path.join(ctx.dir, "r6.meta.json")))
    vlib.merge_meta(ctx, meta6)
    key = lambda p: int(p.rsplit("_", 1)[1][:-2])
    shards = sorted(glob.glob(os.path.join(ctx.dir, "cases_*.v")), key=key)
    shards2 = sorted(glob.glob(os.path.join(ctx.dir, "r2_*.v")), key=key)
    shards3 = sorted(glob.glob(os.path.join(ctx.dir, "r3_*.v")), key=key)
    shards5 = sorted(glob.glob(os.path.join(ctx.dir, "r5_*.v")), key=key)
    shards6 = sorted(glob.glob(os.path.join(ctx.dir, "r6_*.v")), key=key)
    certs = sorted(glob.glob(os.path.join(ctx.dir, "cert_*.v")))
    grads = sorted(glob.glob(os.path.join(ctx.dir, "grad_r3_*.v")), key=key)
    entries = ([(p, "s1", k) for k, p in enumerate(shards)] + [(p, "s2", k) for k, p in enumerate(shards2)] +
               [(p, "s3", k) for k, p in enumerate(shards3)] + [(p, "s5", k) for k, p in enumerate(shards5)] + [(p, "s6", k) for k, p in enumerate(shards6)] +
               [(p, "cert", 0) for p in certs] +
               [(p, "grad", key(p)) for p in grads])
    # scheduling only (never a decision): at most 4 coqc workers when the machine is already loaded (integrator's request)
    try:
        jobs = int(os.environ.get("VERIF_COQ_JOBS", "0")) or (4 if os.getloadavg()[0] > vlib.NCPU else vlib.NCPU)
    except (ValueError, OSError):
        jobs = 4
    res = vlib.eval_shards([e[0] for e in entries], timeout=3000, jobs=jobs)   # generous: other builders load the machine
    # a shard whose coqc died WITHOUT a Coq error message (killed under memory pressure / timed out while other
    # builders load the machine) is evaluated again, two at a time; a shard with a Coq error or a mismatch is not
    for attempt in range(3):
        dead = [i for i, r in enumerate(res) if r["mism"] is None and "Error" not in (r["error"] or "")]
        if not dead:
            break
        ctx.log("re-evaluating %d shard(s) whose coqc died without a Coq error (attempt %d)" % (len(dead), attempt + 1))
        time.sleep(20 * (attempt + 1))
        again = vlib.eval_shards([res[i]["path"] for i in dead], timeout=3000, jobs=2)
        for i, r in zip(dead, again):
            res[i] = r
    ctx.oblige(len(res), sum(1 for r in res if r["ok"]))
    cases = vlib.load_jsonl(os.path.join(ctx.dir, "cases.jsonl"))
    cases2 = vlib.load_jsonl(os.path.join(ctx.dir, "r2.jsonl"))
    cases3 = vlib.load_jsonl(os.path.join(ctx.dir, "r3.jsonl"))
    cases5 = vlib.load_jsonl(os.path.join(ctx.dir, "r5.jsonl"))
    cases6 = vlib.load_jsonl(os.path.join(ctx.dir, "r6.jsonl"))

    def offsets(sizes):
        off = [0]
        for z in sizes:
            off.append(off[-1] + z)
        return off
    off2, off3 = offsets(meta2["shard_sizes"]), offsets(meta3["shard_sizes"])
    off5 = offsets(meta5["shard_sizes"])
    off6 = offsets(meta6["shard_sizes"])
    bad, known = [], []
    for (path, kind, k), r in zip(entries, res):
        if r["ok"]:
            continue
        if kind == "grad":
            # a gradient certificate failed: the logistic-regression cases of that shard are the suspects
            ms = [c for c in cases3[off3[k]:off3[k + 1]] if c.get("kind") == "logreg"]
            ctx.log("gradient certificate %s does not check (%d logistic-regression cases)" % (os.path.basename(path), len(ms)))
            bad.extend(ms)
            continue
        if r["mism"] is None or kind == "cert":
            what = ("exp table entry not certified by Coq-Interval (Go's math.Exp or the harness disagrees with exp)"
                    if kind == "cert" else "correspondence shard did not evaluate")
            ctx.violation({"obligation": "shard " + os.path.basename(r["path"]), "coqc_error": r["error"]}, False, what)
            continue
        if kind == "s6":
            ms = [cases6[off6[k] + i] for i in r["mism"]]
        elif kind == "s5":
            ms = [cases5[off5[k] + i] for i in r["mism"]]
        elif kind == "s3":
            ms = [cases3[off3[k] + i] for i in r["mism"]]
        elif kind == "s2":
            ms = [cases2[off2[k] + i] for i in r["mism"]]
        else:
            ms = [cases[k * meta["per_shard"] + i] for i in r["mism"]]
        for c in ms:
            f = known_case(c)
            if f:
                known.append((f, c))
            else:
                bad.append(c)
        if all(known_case(c) for c in ms):
            ctx.discharged += 1   # every mismatch of the shard is a recorded finding
    ctx.log("correspondence: %d + %d (Baum-Welch) + %d (round 3: vector normal, products, negative binomial, logistic regression, "
            "normal-mixture EM) + %d (round 5: nested estimators / summarised data) + %d (round 6: call sequences on one estimator "
            "object incl. round 7's mixed unweighted/weighted batches, returned EM mixture, re-used vector estimators, round 7's NumericEstimator objective) cases in %d shards (+%d exp-table certificates, "
            "%d gradient certificates), %d mismatching, %d known" % (
        len(cases), len(cases2), len(cases3), len(cases5), len(cases6),
        len(shards) + len(shards2) + len(shards3) + len(shards5) + len(shards6), len(certs),
        len(grads), len(bad), len(known)))
    for c in bad[:12]:
        ctx.log("  mismatching case: %s" % c.get("tag", c.get("kind")))
    return bad, known


def hunt(ctx, binary, bad):
    rp = os.path.join(ctx.dir, "hunt_in.json")
    lag = json.load(open(LAG_WITNESS)) if os.path.exists(LAG_WITNESS) else None
    vcl = json.load(open(VCLAMP_WITNESS)) if os.path.exists(VCLAMP_WITNESS) else None
    json.dump({"cases": [c for c in bad if c.get("kind") != "hmm" and c.get("kind") not in KINDS3 + KINDS5 + KINDS6][:50],
               "cases5": [c for c in bad if c.get("kind") in KINDS5][:40],
               "cases6": [c for c in bad if c.get("kind") in KINDS6][:40],
               "cases2": [c for c in bad if c.get("kind") == "hmm"][:20],
               "cases3": [c for c in bad if c.get("kind") in KINDS3][:40],
               "lag_witness": lag, "vclamp_witness": vcl}, open(rp, "w"))
    n = 1500 if ctx.tier == "quick" else 20000
    env = dict(vlib.go_env())
    env["C16_SID_WITNESS"] = SID_WITNESS
    rc, out = vlib.sh([binary, "--extra", "hunt", "--replay", rp, "--n", str(n), "--seed", str(ctx.seed),
                       "--out", ctx.dir], timeout=900, env=env)
    hp = os.path.join(ctx.dir, "hunt.json")
    if rc == 0 and os.path.exists(hp):
        return json.load(open(hp))
    return {"found": False, "error": out[-2000:]}


def run(ctx):
    ctx.cov["trusted_base"] = vlib.TRUSTED_BASE_COMMON + [
        "Coq-Interval 4.x (`interval`) for the exp table entries, the ln(1 +- 2^-10) bounds, 1/sqrt(2 pi) and the logistic-regression gradient certificates",
        "axioms: those of the Coq Reals library (see 'print_assumptions')"]
    ctx.cov["partial"] = PARTIAL
    ok, failures = vlib.proof_stage(ctx, TARGETS, PROPS)
    if ok:
        thms = vlib.theorem_names(os.path.join(vlib.COQ, "C16/Props.v"))
        ctx.cov["print_assumptions"] = vlib.print_assumptions("C16", [("C16.Props", thms)], ctx.dir)
    binary, blog = vlib.build_harness("c16")
    if binary is None:
        ctx.violation({"obligation": "build of harness/c16 against " + vlib.REPO, "log": blog[-3000:]}, False,
                      "tie lost: the C16 harness no longer builds against the library")
        return
    n = 240 if ctx.tier == "quick" else 3000
    bad, known = corr(ctx, binary, n)
    for f, c in known[:1]:
        ctx.known_finding(f["id"], f["what"])
    h = hunt(ctx, binary, bad)
    if h.get("lag"):
        lagf = [f for f in findings() if f.get("match", {}).get("kind") == "em_hook_likelihood_lag"]
        if lagf:
            ctx.known_finding(lagf[0]["id"], lagf[0]["what"])
        else:
            ctx.violation({"case": json.load(open(LAG_WITNESS)), "failure": h["lag"]}, True,
                          "EM hook reports the likelihood of the previous iteration's mixture: " + h["lag"])
    if h.get("vclamp"):
        vf = [f for f in findings() if f.get("match", {}).get("kind") == "vector_normal_diagonal_clamp"]
        if vf:
            ctx.known_finding(vf[0]["id"], vf[0]["what"])
        else:
            ctx.violation({"case": json.load(open(VCLAMP_WITNESS)), "failure": h["vclamp"]}, True,
                          "vector NormalEstimator with an active SigmaMin clamp does not return the constrained maximiser: " + h["vclamp"])
    if h.get("sidstale"):
        sf = [f for f in findings() if f.get("match", {}).get("kind") == "scalar_id_stale_failure"]
        if sf:
            ctx.known_finding(sf[0]["id"], sf[0]["what"])
        else:
            ctx.violation({"case": json.load(open(SID_WITNESS)), "failure": h["sidstale"]}, True,
                          "scalarId estimator refuses admissible data after an earlier failed call on the same object: " + h["sidstale"])
    found = h.get("found") and not known_case(h.get("case", {}))
    if found:
        ctx.violation({"case": h["case"], "failure": h["failure"],
                       "broken": [f["target"] for f in failures] + (["correspondence C16.Corr.check"] if bad else [])},
                      True, "estimator / EM violates the maximiser or ascent property: " + h["failure"])
    elif bad or not ok:
        for f in failures:
            ctx.violation({"obligation": f["target"], "lemma": f["lemma"], "errors": f["errors"]}, False,
                          "proof obligation no longer checks: %s %s" % (f["target"], f["lemma"] or ""))
        if bad:
            ctx.violation({"case": bad[0], "n_mismatching": len(bad),
                           "obligation": "correspondence C16.Corr.check (model vs implementation)"}, False,
                          "model and implementation disagree (%s), but the float-level oracle found no parameters "
                          "beating the estimate" % bad[0].get("tag", bad[0].get("kind")))


def replay(ctx, path):
    rp = json.load(open(path))
    binary, blog = vlib.build_harness("c16")
    if binary is None:
        print(blog); return 2
    if "case" not in rp:
        print("replay names a broken obligation, not an input: %s" % rp.get("obligation"))
        ok, failures = vlib.proof_stage(ctx, TARGETS, PROPS)
        return 0 if ok else 1
    for pat in ("replay_*.v", "cert_replay_*.v"):
        for old in glob.glob(os.path.join(ctx.dir, pat)):
            os.remove(old)
    rc, out = vlib.sh([binary, "--replay", path, "--out", ctx.dir], env=vlib.go_env())
    res = vlib.eval_shards(sorted(glob.glob(os.path.join(ctx.dir, "replay_*.v")) + glob.glob(os.path.join(ctx.dir, "cert_replay_*.v"))))
    h = json.load(open(os.path.join(ctx.dir, "hunt.json")))
    agree = bool(res) and all(r["ok"] for r in res)
    print("model/implementation agree on the replayed case: %s" % agree)
    print("property oracle on the implementation: %s" % (h["failure"] if h.get("found") else "holds"))
    return 1 if (h.get("found") or not agree) else 0
