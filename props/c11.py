"""C11 — sparse containers stay coherent under any history of operations."""
import glob, json, os
import vlib

TARGETS = ["Base/Corr.vo", "C11/Model.vo", "C11/Corr.vo", "C11/Spec.vo", "C11/SpecTest.vo",
           "C11/ProofsMap.vo", "C11/ProofsInv.vo", "C11/ProofsRef.vo", "C11/ProofsIter.vo", "C11/Props.vo"]
PROPS = ["C11/Props.v"]
PARTIAL = ("Theorems are about the hand-written model coq/C11/Model.v of vector_sparse_template.in (heap of cells + "
           "value map + ordered key set standing for the AVL index, justified by C19). Element carrier Z. "
           "Sparse matrices (header + one sparse vector) are not modelled. Iterators held across mutations are modelled "
           "only as partially consumed and abandoned iterators (IterPart). See Props.v for statements named _partial.")
KNOWN_PROPOSED = os.path.join(vlib.ROOT, "corpus/C11/known_findings_proposed.json")


def known_list():
    out = list(vlib.known_findings("C11"))
    ids = {f["id"] for f in out}
    if os.path.exists(KNOWN_PROPOSED):
        for f in json.load(open(KNOWN_PROPOSED)):
            if f.get("property") == "C11" and f["id"] not in ids:
                out.append(f)
    return out


def corr(ctx, binary, n, corpus):
    rc, out = vlib.run_harness(ctx, binary, n, extra=corpus)
    if rc != 0:
        ctx.violation({"obligation": "C11 harness run", "log": out[-3000:]}, False,
                      "harness failed on the implementation (crash while generating histories)")
        return []
    meta = json.load(open(os.path.join(ctx.dir, "cases.meta.json")))
    vlib.merge_meta(ctx, meta)
    shards = sorted(glob.glob(os.path.join(ctx.dir, "cases_*.v")),
                    key=lambda p: int(os.path.basename(p)[6:-2]))
    res = vlib.eval_shards(shards)
    ctx.oblige(len(res), sum(1 for r in res if r["ok"]))
    cases = vlib.load_jsonl(os.path.join(ctx.dir, "cases.jsonl"))
    bad = []
    for k, r in enumerate(res):
        if r["ok"]:
            continue
        if r["mism"] is None:
            ctx.violation({"obligation": "correspondence shard " + os.path.basename(r["path"]),
                           "coqc_error": r["error"]}, False, "correspondence shard did not evaluate")
            continue
        for i in r["mism"]:
            bad.append(cases[k * meta["per_shard"] + i])
    ctx.log("correspondence: %d histories in %d shards (%.0fs coqc), %d mismatching" % (
        len(cases), len(res), sum(r["secs"] for r in res), len(bad)))
    return bad


def hunt(ctx, binary, bad):
    rp = os.path.join(ctx.dir, "hunt_in.json")
    json.dump({"cases": bad[:50]}, open(rp, "w"))
    n = 3000 if ctx.tier == "quick" else 30000
    rc, out = vlib.sh([binary, "--extra", "hunt", "--replay", rp, "--n", str(n), "--seed", str(ctx.seed),
                       "--out", ctx.dir], timeout=900, env=vlib.go_env())
    hp = os.path.join(ctx.dir, "hunt.json")
    if rc == 0 and os.path.exists(hp):
        h = json.load(open(hp))
        ctx.cov.setdefault("extra", {})["hunt_histories_tried"] = h.get("tried")
        if h.get("found"):
            return h
    elif rc != 0:
        ctx.notes.append("hunt run failed: " + out[-500:])
    return None


def known(ctx, binary):
    """Replay the witnesses of the recorded findings on the implementation."""
    rc, out = vlib.sh([binary, "--extra", "known", "--out", ctx.dir], timeout=300, env=vlib.go_env())
    kp = os.path.join(ctx.dir, "known.json")
    if rc != 0 or not os.path.exists(kp):
        return
    seen = {k["id"]: k for k in json.load(open(kp))}
    for f in known_list():
        k = seen.get(f["id"])
        if k and k["confirmed"]:
            ctx.known_finding(f["id"], f["what"])
        elif k:
            ctx.notes.append("known finding %s no longer reproduces: %s" % (f["id"], k["detail"]))


def run(ctx):
    ctx.cov["trusted_base"] = vlib.TRUSTED_BASE_COMMON + [
        "hook /repo/verif_c11.go (read-only dump of the private map, nil placeholders and AVL index keys)",
        "the AVL index is abstracted to its ordered key set (C19's refinement theorem)",
        "axioms: see 'print_assumptions' (expected: closed under the global context)"]
    ctx.cov["partial"] = PARTIAL
    ok, failures = vlib.proof_stage(ctx, TARGETS, PROPS)
    thms = vlib.theorem_names(os.path.join(vlib.COQ, "C11/Props.v"))
    ctx.cov["theorems"] = thms
    if ok:
        ctx.cov["print_assumptions"] = vlib.print_assumptions("C11", [("C11.Props", thms)], ctx.dir)
    binary, blog = vlib.build_harness("c11")
    if binary is None:
        ctx.violation({"obligation": "build of harness/c11 against the library", "log": blog[-3000:]}, False,
                      "tie lost: the C11 harness no longer builds against the library")
        return
    n = 300 if ctx.tier == "quick" else 3000
    bad = corr(ctx, binary, n, os.path.join(vlib.ROOT, "corpus/C11/corpus.jsonl"))
    known(ctx, binary)
    h0 = hunt(ctx, binary, bad)
    broken = [f["target"] for f in failures] + (["correspondence C11.Corr.check"] if bad else [])
    if h0:
        ctx.violation({"case": h0["case"], "failure": h0["failure"], "at": h0["at"], "broken": broken}, True,
                      "sparse vector violates coherence / dense agreement / iteration: " + h0["failure"])
        return
    for f in failures:
        ctx.violation({"obligation": f["target"], "lemma": f["lemma"], "errors": f["errors"]}, False,
                      "proof obligation no longer checks: %s %s" % (f["target"], f["lemma"] or ""))
    if bad:
        ctx.violation({"case": bad[0], "obligation": "correspondence C11.Corr.check (model vs implementation)"},
                      False, "model and implementation disagree on a history (%d of them), but no history "
                      "violating the property itself was found" % len(bad))


def replay(ctx, path):
    rp = json.load(open(path))
    binary, blog = vlib.build_harness("c11")
    if binary is None:
        print(blog); return 2
    if "case" not in rp:
        print("replay names a broken obligation, not an input: %s" % rp.get("obligation"))
        ok, failures = vlib.proof_stage(ctx, TARGETS, PROPS)
        return 0 if ok else 1
    vlib.sh([binary, "--replay", path, "--out", ctx.dir], env=vlib.go_env())
    res = vlib.eval_shards(sorted(glob.glob(os.path.join(ctx.dir, "replay_*.v"))))
    hin = os.path.join(ctx.dir, "hunt_in.json")
    case = dict(rp["case"]); case.pop("outs", None)
    json.dump({"cases": [case]}, open(hin, "w"))
    vlib.sh([binary, "--extra", "hunt", "--replay", hin, "--n", "0", "--out", ctx.dir], env=vlib.go_env())
    h = json.load(open(os.path.join(ctx.dir, "hunt.json")))
    agree = bool(res) and all(r["ok"] for r in res)
    print("model/implementation agree on the replayed history: %s" % agree)
    print("property oracle on the implementation: %s" % (h["failure"] if h.get("found") else "holds"))
    return 1 if (h.get("found") or not agree) else 0
