"""C11 — sparse containers stay coherent under any history of operations."""
import glob, json, os
import vlib

TARGETS = ["Base/Corr.vo", "C11/Model.vo", "C11/Spec.vo", "C11/Dense.vo", "C11/Corr.vo", "C11/SpecTest.vo",
           "C11/ProofsMap.vo", "C11/ProofsInv.vo", "C11/ProofsRef.vo", "C11/ProofsIter.vo",
           "C11/ProofsD1.vo", "C11/ProofsD2.vo", "C11/ProofsD3.vo", "C11/ProofsDSort.vo", "C11/ProofsDSet.vo",
           "C11/ProofsDense.vo", "C11/ProofsDOut.vo", "C11/ProofsShare.vo", "C11/Props.vo",
           # part 2: iterators held across mutations
           "C11/ModelIt.vo", "C11/CorrIt.vo", "C11/ProofsIt.vo", "C11/PropsIt.vo", "C11/SpecTestIt.vo",
           # part 3: sparse matrices (whole matrices)
           "C11/ModelMat.vo", "C11/CorrMat.vo", "C11/ProofsMatSpec.vo", "C11/ProofsMat.vo", "C11/ProofsMatRef.vo",
           "C11/ProofsMatDense.vo", "C11/ProofsMatDense2.vo", "C11/ProofsMatDense3.vo",
           "C11/PropsMat.vo", "C11/SpecTestMat.vo",
           # round 3: dense refinement of EVERY matrix operation, world level, whole histories
           "C11/DenseMat.vo", "C11/CorrMat2.vo", "C11/ProofsMatDense4.vo", "C11/ProofsMatTip.vo",
           "C11/ProofsMatSet.vo", "C11/ProofsMatWorld.vo", "C11/ProofsMatOut.vo", "C11/ProofsMatEx.vo",
           "C11/PropsMat2.vo",
           # round 3: dense reading of the IterPart / Joint / Joint3 payloads
           "C11/DensePay.vo", "C11/Corr2.vo", "C11/ProofsDPay.vo", "C11/PropsPay.vo",
           # round 3: stale iterators in general (moves carry the observed node-validity bit)
           "C11/ModelIt2.vo", "C11/CorrIt2.vo", "C11/ProofsIt2.vo", "C11/PropsIt2.vo",
           # round 5: iteration started in the middle (IteratorFrom) with pending zeros, vectors + matrices
           "C11/ModelMatFrom.vo", "C11/DenseMatFrom.vo", "C11/CorrMat3.vo", "C11/ProofsMatFrom.vo",
           "C11/PropsMatFrom.vo",
           # round 6: matrix permutations (PermuteRows / PermuteColumns / SymmetricPermutation)
           "C11/ModelMatPerm.vo", "C11/DenseMatPerm.vo", "C11/CorrMat4.vo", "C11/ProofsMatPerm.vo",
           # round 6: the statement language of the translator go2coq_c11 + exp_* = model functions
           "C11/GenLib.vo", "C11/PropsMatPerm.vo",
           # round 6: dense reading of Row / Col / Diag
           "C11/ProofsMatRow.vo", "C11/ProofsMatRow2.vo", "C11/PropsMatRow.vo",
           # round 7: the reading of Real scalars (null = value AND derivatives zero) + frame of At / At().Set
           "C11/ModelVar.vo", "C11/ProofsVar.vo", "C11/PropsVar.vo"]
PROPS = ["C11/Props.v", "C11/PropsIt.v", "C11/PropsMat.v", "C11/PropsMat2.v", "C11/PropsPay.v", "C11/PropsIt2.v",
         "C11/PropsMatFrom.v", "C11/PropsMatPerm.v", "C11/PropsMatRow.v", "C11/PropsVar.v"]
PROP_MODULES = [("C11.Props", "C11/Props.v"), ("C11.PropsIt", "C11/PropsIt.v"), ("C11.PropsMat", "C11/PropsMat.v"),
                ("C11.PropsMat2", "C11/PropsMat2.v"), ("C11.PropsPay", "C11/PropsPay.v"),
                ("C11.PropsIt2", "C11/PropsIt2.v"), ("C11.PropsMatFrom", "C11/PropsMatFrom.v"),
                ("C11.PropsMatPerm", "C11/PropsMatPerm.v"), ("C11.PropsMatRow", "C11/PropsMatRow.v"),
                ("C11.PropsVar", "C11/PropsVar.v")]
PARTIAL = ("Theorems are about the hand-written models coq/C11/Model.v (vector_sparse_template.in: heap of cells + "
           "value map + ordered key set standing for the AVL index, justified by C19), ModelIt.v / ModelIt2.v (held "
           "iterators), ModelMat.v (sparse matrices, whole matrices only), ModelMatFrom.v (matrix IteratorFrom) and "
           "ModelMatPerm.v (PermuteRows / PermuteColumns / SymmetricPermutation). Tie: correspondence on every run for all "
           "of them; by TRANSLATION only for the six exchange / permutation methods of the sparse matrices (go2coq_c11 "
           "regenerates Swap / SwapRows / SwapColumns / PermuteRows / PermuteColumns / SymmetricPermutation from all nine "
           "matrix_sparse_<t>.go, Coq proves them equal to the model functions); every other method is hand-transcribed. "
           "Element carrier Z; for the Real element types the integer standing for a scalar is value + 1000 * derivative[0] "
           "(ModelVar.v; PropsVar.v proves it is 0 exactly on the scalars nullScalar() calls null, injective for |value| < 500 "
           "and commuting with SetFloat64 / Reset / SET / SetVariable, and that iteration visits exactly the non-null "
           "scalars, a variable at the point 0 included): scalars with at most ONE variable, order 1; Hessians, several "
           "variables and the value-computing operations (Sort / Map / MapSet / Reduce) on vectors holding variables are "
           "not in the histories of the correspondence (the reading does not commute with arithmetic), and the "
           "reading itself (harness pv + hook VerifC11Deriv0) is tied by correspondence only. The dense refinement (vectors: all 25 operations incl. ConstIteratorFrom; matrices: all 22 "
           "operations + ConstIteratorFrom(i,j) full / abandoned + the three permutations, world level, whole histories) "
           "is stated for histories in which in-place writes go to containers holding no scalar shared with another one "
           "(Dense.safe / DenseMat.msafe; shared-cell writes = known finding C11-SLICEWT, T() sharing = C10 F-SPT-REF); "
           "the permutations need no such premise (they only move scalars). In range for a permutation = on a square n x n "
           "matrix pi has >= n entries, the first n in [0, n) (pi need not be a permutation; non-square: error); what the "
           "code does outside (pi[i] = n passes the guard `> n` and panics in mid-loop, pi too short panics, pi[i] < 0 or > n "
           "returns the error in mid-loop) is modelled and replayed, coherence is proved for ANY pi, but no dense reading "
           "is claimed there. Row / Col / Diag: the returned vector is proved coherent, fresh (shares nothing), reading as "
           "the dense row / column / diagonal and indexing exactly its non-zero positions, after any history; the raw "
           "observation payload (obs_vec) is tied by correspondence only. Iterators held "
           "across an index-replacing operation (ReverseOrder/Sort/Permute, known finding C11-STALEIT) are characterised "
           "exactly: a stale iterator whose node is valid walks the OLD key set beyond its cursor, an invalid one re-finds "
           "in the new index; whether the node is valid is an AVL-internal fact the key-set model cannot derive for "
           "non-fresh iterators: it is read off the implementation (hook VerifC11ItValid) as an input of the move and "
           "cross-checked against the model wherever the model knows it (K_BADORACLE). Not modelled: sparse matrix views "
           "(Slice: C10's findings, excluded), AsVector / ConstRow (alias `values` / share its scalars), matrix joint "
           "iterators, AsMatrix / ToSparseMatrix, Import/Export/JSON, the arithmetic of *_math.go (C03). No statement is named "
           "_partial except the superseded PropsMat.mat_refinement_single_step_partial / mat_write_lists_partial "
           "(completed by PropsMat2.v).")
KNOWN_PROPOSED = os.path.join(vlib.ROOT, "corpus/C11/known_findings_proposed.json")


def known_list():
    out = list(vlib.known_findings("C11"))
    ids = {f["id"] for f in out}
    if os.path.exists(KNOWN_PROPOSED):
        for f in json.load(open(KNOWN_PROPOSED)):
            if f.get("property") == "C11" and f["id"] not in ids:
                out.append(f)
    return out


def corr(ctx, binary, n, corpus):
    rc, out = vlib.run_harness(ctx, binary, n, extra=corpus)
    if rc != 0:
        ctx.violation({"obligation": "C11 harness run", "log": out[-3000:]}, False,
                      "harness failed on the implementation (crash while generating histories)")
        return []
    meta = json.load(open(os.path.join(ctx.dir, "cases.meta.json")))
    vlib.merge_meta(ctx, meta)
    shards = sorted(glob.glob(os.path.join(ctx.dir, "cases_*.v")),
                    key=lambda p: int(os.path.basename(p)[6:-2]))
    res = vlib.eval_shards(shards)
    ctx.oblige(len(res), sum(1 for r in res if r["ok"]))
    cases = vlib.load_jsonl(os.path.join(ctx.dir, "cases.jsonl"))
    bad = []
    for k, r in enumerate(res):
        if r["ok"]:
            continue
        if r["mism"] is None:
            ctx.violation({"obligation": "correspondence shard " + os.path.basename(r["path"]),
                           "coqc_error": r["error"]}, False, "correspondence shard did not evaluate")
            continue
        for i in r["mism"]:
            bad.append(cases[k * meta["per_shard"] + i])
    ctx.log("correspondence: %d histories in %d shards (%.0fs coqc), %d mismatching" % (
        len(cases), len(res), sum(r["secs"] for r in res), len(bad)))
    return bad


def corr_part(ctx, binary, name, n, corpus, what):
    """correspondence of one of the additional parts (held iterators / matrices): harness mode
    `--extra <name>:<corpus>`, shards <name>_<k>.v, cases <name>.jsonl, meta <name>.meta.json"""
    rc, out = vlib.run_harness(ctx, binary, n, extra="%s:%s" % (name, corpus))
    mp = os.path.join(ctx.dir, name + ".meta.json")
    if rc != 0 or not os.path.exists(mp):
        ctx.violation({"obligation": "C11 harness run (%s)" % what, "log": out[-3000:]}, False,
                      "harness failed on the implementation (%s)" % what)
        return []
    meta = json.load(open(mp))
    vlib.merge_meta(ctx, meta)
    pre = len(name) + 1
    shards = sorted(glob.glob(os.path.join(ctx.dir, name + "_*.v")),
                    key=lambda p: int(os.path.basename(p)[pre:-2]))
    res = vlib.eval_shards(shards)
    ctx.oblige(len(res), sum(1 for r in res if r["ok"]))
    cases = vlib.load_jsonl(os.path.join(ctx.dir, name + ".jsonl"))
    bad = []
    for k, r in enumerate(res):
        if r["ok"]:
            continue
        if r["mism"] is None:
            ctx.violation({"obligation": "correspondence shard " + os.path.basename(r["path"]),
                           "coqc_error": r["error"]}, False, "correspondence shard did not evaluate (%s)" % what)
            continue
        for i in r["mism"]:
            bad.append(cases[k * meta["per_shard"] + i])
    ctx.log("correspondence (%s): %d histories in %d shards (%.0fs coqc), %d mismatching" % (
        what, len(cases), len(res), sum(r["secs"] for r in res), len(bad)))
    return bad


def hunt_part(ctx, binary, mode, bad, n):
    """property-level hunt of one of the additional parts: `--extra <mode>` writes <mode>.json"""
    rp = os.path.join(ctx.dir, mode + "_in.json")
    json.dump({"cases": bad[:50]}, open(rp, "w"))
    rc, out = vlib.sh([binary, "--extra", mode, "--replay", rp, "--n", str(n), "--seed", str(ctx.seed),
                       "--out", ctx.dir], timeout=900, env=vlib.go_env())
    hp = os.path.join(ctx.dir, mode + ".json")
    if rc == 0 and os.path.exists(hp):
        h = json.load(open(hp))
        ctx.cov.setdefault("extra", {})[mode + "_histories_tried"] = h.get("tried")
        if h.get("found"):
            return h
    elif rc != 0:
        ctx.notes.append("%s run failed: %s" % (mode, out[-500:]))
    return None


def hunt(ctx, binary, bad):
    rp = os.path.join(ctx.dir, "hunt_in.json")
    json.dump({"cases": bad[:50]}, open(rp, "w"))
    n = 3000 if ctx.tier == "quick" else 30000
    rc, out = vlib.sh([binary, "--extra", "hunt", "--replay", rp, "--n", str(n), "--seed", str(ctx.seed),
                       "--out", ctx.dir], timeout=900, env=vlib.go_env())
    hp = os.path.join(ctx.dir, "hunt.json")
    if rc == 0 and os.path.exists(hp):
        h = json.load(open(hp))
        ctx.cov.setdefault("extra", {})["hunt_histories_tried"] = h.get("tried")
        if h.get("found"):
            return h
    elif rc != 0:
        ctx.notes.append("hunt run failed: " + out[-500:])
    return None


def known(ctx, binary):
    """Replay the witnesses of the recorded findings on the implementation."""
    seen = {}
    for mode, fn in (("known", "known.json"), ("heldknown", "heldknown.json")):
        rc, out = vlib.sh([binary, "--extra", mode, "--out", ctx.dir], timeout=300, env=vlib.go_env())
        kp = os.path.join(ctx.dir, fn)
        if rc != 0 or not os.path.exists(kp):
            ctx.notes.append("known-finding replay '%s' did not run: %s" % (mode, out[-300:]))
            continue
        seen.update({k["id"]: k for k in json.load(open(kp))})
    for f in known_list():
        k = seen.get(f["id"])
        if k and k["confirmed"]:
            ctx.known_finding(f["id"], f["what"])
        elif k:
            ctx.notes.append("known finding %s no longer reproduces: %s" % (f["id"], k["detail"]))


def translate(ctx):
    """Regenerate the sparse-matrix methods Swap / SwapRows / SwapColumns / PermuteRows / PermuteColumns /
    SymmetricPermutation from vlib.REPO (all nine matrix_sparse_<t>.go) with go2coq_c11 and let Coq check that the
    regenerated definitions are the expected ones of coq/C11/GenLib.v (which are proved to be the model functions).
    Returns the list of failures."""
    tool, tlog = vlib.build_tool("go2coq_c11", "go2coq_c11")
    if tool is None:
        ctx.oblige(1, 0)
        return [{"target": "go2coq_c11 build", "lemma": None, "errors": [tlog[-1500:]]}]
    gen = os.path.join(ctx.dir, "GenPerm.v")
    rp = os.path.join(ctx.dir, "gen_report.json")
    for f in (gen, rp):
        if os.path.exists(f):
            os.remove(f)
    rc, out = vlib.sh([tool, "-repo", vlib.REPO, "-out", gen, "-report", rp], timeout=120, env=vlib.go_env())
    if rc != 0 or not os.path.exists(gen) or not os.path.exists(rp):
        ctx.oblige(1, 0)
        return [{"target": "go2coq_c11 run", "lemma": None, "errors": [out[-1500:]]}]
    report = json.load(open(rp))
    ctx.cov["translator"] = report
    rc, out = vlib.coqc_file(gen, timeout=600)
    for ext in (".vo", ".vok", ".vos", ".glob"):
        q = gen[:-2] + ext
        if os.path.exists(q):
            os.remove(q)
    aux = os.path.join(ctx.dir, ".GenPerm.aux")
    if os.path.exists(aux):
        os.remove(aux)
    ok = rc == 0 and bool(report.get("ok"))
    ctx.oblige(1, 1 if ok else 0)
    ctx.log("translator go2coq_c11: %d of 9 instantiations identical, tie gen_* = exp_* %s" % (
        len(report.get("identical") or []), "holds" if ok else "BROKEN"))
    if ok:
        return []
    return [{"target": "translation tie runs/C11/GenPerm.v: the sparse-matrix methods Swap / SwapRows / SwapColumns / "
                       "PermuteRows / PermuteColumns / SymmetricPermutation regenerated from the library are no longer the "
                       "model functions (or an instantiation differs from the others: %s)" % (report.get("differ") or []),
             "lemma": "generated_methods_are_the_model", "errors": [out[-1500:]]}]


def run(ctx):
    ctx.cov["trusted_base"] = vlib.TRUSTED_BASE_COMMON + [
        "hook /repo/verif_c11.go (read-only dump of the private map, nil placeholders and AVL index keys)",
        "hook /repo/verif_c11_mat.go (read-only: the private values vector of a sparse matrix) and C10's VerifC10Header",
        "hook /repo/verif_c11_var.go (read-only: Derivative[0] of the scalars stored in a sparse Real32 / Real64 vector)",
        "hook /repo/verif_c11_it.go (read-only: node validity !Deleted && Value == value of a held iterator; it is an INPUT of "
        "the stale-iterator model ModelIt2.v, cross-checked where the model knows it)",
        "C19's AVL model (coq/C19/Model.v) for the tree-level justification of the two stale-iterator branches (PropsIt2.v)",
        "the AVL index is abstracted to its ordered key set (C19's refinement theorem)",
        "go2coq_c11 (translator, ~400 lines of Go, go/parser + go/ast only): trusted for the shape of the Gallina text it prints "
        "for the six exchange / permutation methods of the nine sparse matrix types; what the text MEANS is checked by Coq "
        "(GenPerm.v: gen_* = exp_* by reflexivity; GenLib.v: exp_* = model functions, proved)",
        "axioms: see 'print_assumptions' (expected: closed under the global context)"]
    ctx.cov["partial"] = PARTIAL
    ok, failures = vlib.proof_stage(ctx, TARGETS, PROPS)
    mods = [(m, vlib.theorem_names(os.path.join(vlib.COQ, f))) for m, f in PROP_MODULES]
    ctx.cov["theorems"] = [t for _, ths in mods for t in ths]
    if ok:
        ctx.cov["print_assumptions"] = vlib.print_assumptions("C11", mods, ctx.dir)
    if ok:
        failures = failures + translate(ctx)
    binary, blog = vlib.build_harness("c11")
    if binary is None:
        ctx.violation({"obligation": "build of harness/c11 against the library", "log": blog[-3000:]}, False,
                      "tie lost: the C11 harness no longer builds against the library")
        return
    n = 300 if ctx.tier == "quick" else 3000
    bad = corr(ctx, binary, n, os.path.join(vlib.ROOT, "corpus/C11/corpus.jsonl"))
    nh = 90 if ctx.tier == "quick" else 900
    bad_held = corr_part(ctx, binary, "held", nh, os.path.join(vlib.ROOT, "corpus/C11/held_corpus.jsonl"),
                         "iterators held across mutations")
    bad_held2 = corr_part(ctx, binary, "held2", nh, os.path.join(vlib.ROOT, "corpus/C11/held2_corpus.jsonl"),
                          "stale iterators moved with the observed validity bit")
    bad_mat = corr_part(ctx, binary, "mat", nh, os.path.join(vlib.ROOT, "corpus/C11/mat_corpus.jsonl"),
                        "sparse matrices + dense matrix model")
    known(ctx, binary)
    h0 = hunt(ctx, binary, bad)
    broken = [f["target"] for f in failures] + (["correspondence C11.Corr.check"] if bad else []) + \
             (["correspondence C11.CorrIt (held iterators)"] if bad_held else []) + \
             (["correspondence C11.CorrIt2 (stale iterators)"] if bad_held2 else []) + \
             (["correspondence C11.CorrMat4 (sparse matrices incl. IteratorFrom and the permutations)"] if bad_mat else [])
    if h0:
        ctx.violation({"case": h0["case"], "failure": h0["failure"], "at": h0["at"], "broken": broken}, True,
                      "sparse vector violates coherence / dense agreement / iteration: " + h0["failure"])
        return
    h1 = hunt_part(ctx, binary, "heldhunt", bad_held + bad_held2, 3000 if ctx.tier == "quick" else 30000)
    if h1:
        ctx.violation({"case": h1["case"], "failure": h1["failure"], "at": h1.get("at"), "broken": broken,
                       "part": "held"}, True,
                      "a held sparse-vector iterator does not visit exactly the remaining non-zero positions: "
                      + h1["failure"])
        return
    h2 = hunt_part(ctx, binary, "mathunt", bad_mat, 3000 if ctx.tier == "quick" else 30000)
    if h2:
        ctx.violation({"case": h2["case"], "failure": h2["failure"], "at": h2.get("at"), "broken": broken,
                       "part": "mat"}, True,
                      "sparse matrix violates coherence / dense agreement / iteration: " + h2["failure"])
        return
    for f in failures:
        ctx.violation({"obligation": f["target"], "lemma": f["lemma"], "errors": f["errors"]}, False,
                      "proof obligation no longer checks: %s %s" % (f["target"], f["lemma"] or ""))
    if bad:
        ctx.violation({"case": bad[0], "obligation": "correspondence C11.Corr.check (model vs implementation)"},
                      False, "model and implementation disagree on a history (%d of them), but no history "
                      "violating the property itself was found" % len(bad))
    if bad_mat:
        ctx.violation({"case": bad_mat[0], "part": "mat",
                       "obligation": "correspondence C11.CorrMat4 (sparse-matrix model incl. IteratorFrom and the permutations vs implementation)"},
                      False, "sparse-matrix model and implementation disagree on a history (%d of them), but no "
                      "history violating the property itself was found" % len(bad_mat))
    if bad_held2:
        ctx.violation({"case": bad_held2[0], "part": "held2",
                       "obligation": "correspondence C11.CorrIt2.check_it2 (stale-iterator model vs implementation)"},
                      False, "stale-iterator model and implementation disagree on a history (%d of them), but no "
                      "history violating the property itself was found" % len(bad_held2))
    if bad_held:
        ctx.violation({"case": bad_held[0], "part": "held",
                       "obligation": "correspondence C11.CorrIt.check_it (held-iterator model vs implementation)"},
                      False, "held-iterator model and implementation disagree on a history (%d of them), but no "
                      "history violating the property itself was found" % len(bad_held))


def replay(ctx, path):
    rp = json.load(open(path))
    binary, blog = vlib.build_harness("c11")
    if binary is None:
        print(blog); return 2
    if "case" not in rp:
        print("replay names a broken obligation, not an input: %s" % rp.get("obligation"))
        ok, failures = vlib.proof_stage(ctx, TARGETS, PROPS)
        return 0 if ok else 1
    part = rp.get("part")
    if part in ("held", "held2", "mat"):
        # additional parts: `--extra <part> --replay` writes <part>replay_*.v, `--extra <part>hunt` judges the property
        vlib.sh([binary, "--extra", part, "--replay", path, "--out", ctx.dir], env=vlib.go_env())
        pat = {"held": "heldreplay_*.v", "held2": "held2replay_*.v", "mat": "replay_mat_*.v"}[part]
        hpart = "held" if part == "held2" else part   # same history format; the oracle does not need the bit
        res = vlib.eval_shards(sorted(glob.glob(os.path.join(ctx.dir, pat))))
        hin = os.path.join(ctx.dir, hpart + "hunt_in.json")
        case = dict(rp["case"]); case.pop("outs", None)
        json.dump({"cases": [case]}, open(hin, "w"))
        vlib.sh([binary, "--extra", hpart + "hunt", "--replay", hin, "--n", "0", "--out", ctx.dir], env=vlib.go_env())
        h = json.load(open(os.path.join(ctx.dir, hpart + "hunt.json")))
        agree = bool(res) and all(r["ok"] for r in res)
        print("model/implementation agree on the replayed history (%s): %s" % (part, agree))
        print("property oracle on the implementation: %s" % (h["failure"] if h.get("found") else "holds"))
        return 1 if (h.get("found") or not agree) else 0
    vlib.sh([binary, "--replay", path, "--out", ctx.dir], env=vlib.go_env())
    res = vlib.eval_shards(sorted(glob.glob(os.path.join(ctx.dir, "replay_*.v"))))
    hin = os.path.join(ctx.dir, "hunt_in.json")
    case = dict(rp["case"]); case.pop("outs", None)
    json.dump({"cases": [case]}, open(hin, "w"))
    vlib.sh([binary, "--extra", "hunt", "--replay", hin, "--n", "0", "--out", ctx.dir], env=vlib.go_env())
    h = json.load(open(os.path.join(ctx.dir, "hunt.json")))
    agree = bool(res) and all(r["ok"] for r in res)
    print("model/implementation agree on the replayed history: %s" % agree)
    print("property oracle on the implementation: %s" % (h["failure"] if h.get("found") else "holds"))
    return 1 if (h.get("found") or not agree) else 0
