"""C17 — parallel estimation is schedule independent and race free.

Decision: the theorems of coq/C17/Props.v (merge = monoid sum of the contributions for every pool
size, schedule and stale accumulator content; AddRangeJob chunks partition the range; error
propagation; write sets of every call site are thread- or job-owned).
Tie: harness/c17 runs the real call sites of the library (vlib.REPO) on real thread pools of
1..8 threads and the Coq model recomputes every merged observable from per-job contributions
obtained by sequential single-job runs (cases_*.v exact in Q / bit-exact floats, tol_*.v
certified by Coq-Interval for the log-add results).
Round 2: the merge theorem per accumulator and per configuration of the optional accumulators
(ModelCfg / ProofsCfg) tied by the option matrix stream (ocases_*.v: OptimizeEmissions x
OptimizeTransitions / OptimizeWeights on pools 1..8, every returned observable); the write-set
theorem re-checked on access lists generated from the Go closures by /verif/go2coq_c17
(Sites_gen.v, regenerated on every run; private Coq tree under ctx.dir when vlib.REPO != /repo);
SAGA partition and estimate tied (sagacases_*.v); matrixEstimator and NumericEstimator driven.
Round 3 (class "per-thread clones that are not deep"): composite models (HMM / mixtures whose emissions are
mixtures or transformed densities) in the cross-pool, race and hunt streams - batch evaluation bitwise equal to
direct sequential LogPdf calls (site comp), whole estimations (full kinds hmm-smix, mix-smix, hmm-logt,
hmm-transl); a structural deep-copy freshness check of every Clone* method of the distribution packages
(go/parser inventory + reflective storage walk, harness --extra fresh); the write-set model extended by the
scratch cells of the distribution objects (ModelScratch / ProofsScratch) and the scratch pass of go2coq_c17
(Scratch_gen.v: receiver fields written by the evaluation methods x how Clone() produces them).
Round 6: the per-thread partial sums of ALL batch estimators (scalarEstimator Categorical / Exponential / Geometric / NegativeBinomial /
Normal / Poisson, vectorEstimator Normal): their description (allocation, initial value, updates in NewObservation, the fold in
updateEstimate / estimateParameters) is regenerated from the Go source by go2coq_c17 -accum (Accum_gen.v), given a semantics
(ModelAccum.acc_run) and decided (gaccum_ok); an accepted description returns the monoid sum for every pool size and schedule.
Tie: harness/c17/accum.go drives the real Initialize / NewObservation / GetEstimate on real pools, logs the schedule per thread and
CorrAccum.v replays it: bit-identical estimates for the two NormalEstimators on arbitrary binary64 data (acases_*.v).
Below the schedule model: read / write steps interleaved arbitrarily (ModelThreads / ProofsThreads): owned cells lose no update.
Round 7: which samples a SAGA epoch evaluates (ModelSaga / ProofsSaga): the workers' Iterate loops read the drawn list through the
sub-slices of Initialize; for every pool size, every n and every interleaving the evaluated multiset is the drawn one (no remainder
n mod p dropped). Tie: hook VerifC17SagaTrace logs every f(j, x1) per epoch on the nil pool and on real pools of 1..8 threads; the
drawn lists are recomputed by the harness with math/rand; CorrCfg.sagacheck compares (sagacases_*.v). Hunt oracle: same statement
on the implementation. The vector NormalEstimator (dimension >= 2) is driven on pools 1,2,3,4,7 in every run (corpus + generator).
Supporting evidence (labelled so): a -race build of the same harness under a deadline.
"""
import glob, json, os, shutil
import vlib

TARGETS = ["Base/Corr.vo", "C17/Model.vo", "C17/Spec.vo", "C17/Sites.vo", "C17/Carriers.vo", "C17/ProofsMerge.vo",
           "C17/ProofsChunks.vo", "C17/ProofsErr.vo", "C17/ProofsSites.vo", "C17/Corr.vo", "C17/ModelCfg.vo", "C17/ProofsCfg.vo",
           "C17/ModelSaga.vo", "C17/ProofsSaga.vo",
           "C17/CorrCfg.vo", "C17/SitesGenDefs.vo", "C17/Sites_gen.vo", "C17/ProofsSitesGen.vo",
           "C17/ModelScratch.vo", "C17/ScratchGenDefs.vo", "C17/Scratch_gen.vo", "C17/ProofsScratch.vo",
           "C17/ModelErrFlow.vo", "C17/ProofsErrFlow.vo", "C17/ErrFlow_gen.vo", "C17/ProofsErrFlowGen.vo", "C17/CorrErrFlow.vo",
           "C17/ModelAccum.vo", "C17/Accum_gen.vo", "C17/ProofsAccum.vo", "C17/ProofsAccumGen.vo", "C17/CorrAccum.vo",
           "C17/ModelThreads.vo", "C17/ProofsThreads.vo", "C17/Props.vo"]
PROPS = ["C17/Props.v"]
PARTIAL = ("Scheduling model plus a read/write interleaving model of the accumulator statements (round 6: ModelThreads - every `acc[i] (+)= x` is a read "
           "step and a write step, any interleaving, sequentially consistent memory: thread-owned cells lose no update; a shared cell does). The "
           "theorems are about coq/C17/Model.v, ModelCfg.v, ModelAccum.v, ModelThreads.v (per-thread accumulators, lazy init flags, the merge "
           "loops per configuration of the optional accumulators, the batch estimators' partial sums as DESCRIBED by go2coq_c17 -accum, "
           "AddRangeJob's chunk arithmetic, the error slot). The Go memory model itself (data-race freedom => sequential consistency), "
           "deadlock freedom of Wait and the threadpool package (outside the library; assumed to run every queued job exactly once on one "
           "thread id at a time - checked at run time on every batch case: the per-thread logs must form a schedule) are not modelled; they are "
           "sampled by a -race build of the harness under a deadline (supporting evidence only). Theorem (2) is about the access lists go2coq_c17 derives from the closures "
           "(assignments and method calls, same-package callees followed to depth 4): writes behind function values or interface methods "
           "and writes a callee makes through an argument are not listed (F-SAGA-THETA-RACE is of that kind and is seen by the race detector only). "
           "The accumulator pass (~350 lines go/ast, no type checker) recognises the coding pattern of the seven batch estimators (make(T, p.NumberOfThreads()), "
           "literal initial values, `F[id] = LogAdd(F[id], c)` / `+=` / `++`, counting loops folding F[i]); a batch estimator written differently is reported "
           "as not accepted, not silently skipped, but a per-thread accumulator that is not a slice field allocated in Initialize is not seen by this pass "
           "(the delegating estimators LogTransform / Translation / Delta / ScalarBatchId / VectorBatchId have none). The contributions themselves "
           "(math.Log(x), g + log x, exp(gamma - gamma_max)) are not modelled: the Coq replay takes Go's exp(gamma) as the weight. "
           "Over floats the merged value depends on the reduction order: equality is proved over exact commutative monoids "
           "(R, Q, N, log-add on R u {-inf}); on binary64 the check demands equality when all partial sums are exactly "
           "representable (decided in Coq) and |go - sum| <= n*2^-52*sum|c_j| otherwise, and - round 6, batch interface of the two NormalEstimators - "
           "bit-identity with the model run on the OBSERVED schedule; log-add results within 1e-9 "
           "(certified by Coq-Interval for one pool per configuration, compared with the sequential run elsewhere; the log-domain batch estimators "
           "are compared with the sequential run at 1e-9, not recomputed). SAGA logistic regression "
           "partitions the data by pool size and averages: its result depends on the pool size by design; its partition is proved and tied, its "
           "estimate is compared bit for bit with the same partition executed sequentially (up to 6 attempts because of F-SAGA-THETA-RACE); "
           "round 7: the sample indices every epoch evaluates are modelled (ModelSaga: drawn list read through the workers' sub-slices, any interleaving), "
           "proved to be the drawn multiset for every pool size / n / schedule and tied per epoch (nil pool: exact sequence; real pools 1..8: same multiset; "
           "drawn list recomputed with math/rand from the seed) - what SAGA computes at those samples (jit updates, gradient steps, averaging) is still not modelled, "
           "and the interleaving on a real pool is not observed per worker (only the global log). "
           "matrixEstimator / vectorEstimator mixtures and HMMs, ShapeHmm and the NumericEstimator parameters are compared across pools "
           "(1e-9, NumericEstimator 1e-6), not recomputed by the model. Round 3: freshness of per-thread clones is a hypothesis of the scratch-cell "
           "theorem (fresh_clones_give_disjoint_write_sets) and is decided for the library in two independent ways, neither a proof about Go: "
           "statically on the source (Scratch_gen.v: fields WRITTEN DIRECTLY by an evaluation method x how Clone() initialises them; children such as "
           "Edist[i] cloned in a loop are not classified) and reflectively on run-time objects built by harness/c17/fresh.go (one nested instance per "
           "type with a Clone* method; every pointer / slice / map storage reachable from both original and clone is reported; the constraint lists "
           "of ChmmTransitionMatrix and the tree of HhmmTransitionMatrix are shared but written only by their constructors - documented immutable). "
           "Composite models: batch evaluation compared bitwise with direct sequential LogPdf calls; composite estimations across pools at 1e-9. "
           "F-BW-NOTRANS-NILDEREF and F-VMIX-SETPARAMS-RECURSION are fixed at /repo HEAD (25c790a, 44820ea): the matchers stay, they no longer fire.")

SITE_OF = {"em-opt": "statistics/generic/mixture_em.go EmStep (option matrix)", "bw-opt": "statistics/generic/hmm_baumWelch.go BaumWelchStep (option matrix)",
           "saga": "statistics/vectorEstimator/logisticRegression.go sagaLogisticRegressionL1", "numeric": "statistics/scalarEstimator/numeric.go Estimate",
           "em": "statistics/generic/mixture_em.go EmStep", "bw": "statistics/generic/hmm_baumWelch.go BaumWelchStep",
           "normal": "statistics/scalarEstimator/normal.go Estimate/updateEstimate", "xpool": "scalar/vector estimators Estimate",
           "chunks": "threadpool AddRangeJob", "bw-err": "BaumWelchStep error path", "em-err": "EmStep error path",
           "x": "scalar/vector estimators Estimate", "full": "vectorEstimator.HmmEstimator / scalarEstimator.MixtureEstimator",
           "comp": "XxxStdDataSet.EvaluateLogPdf on composite emissions (per-thread clones of stateful distributions)",
           "batch": "scalarEstimator / vectorEstimator batch interface: Initialize, NewObservation (per-thread partial sums), GetEstimate (the fold)",
           "errflow": "error path of the estimators through the pool (results of AddJob / AddRangeJob / Wait and of the calls above and below them)"}


# ---------------------------------------------------------------- access lists derived from the Go source

def private_tree(ctx, gen_text, scratch_text=None, errflow_text=None, accum_text=None):
    """REPO is redirected and its job closures differ from the committed Sites_gen.v: compile Base + C17 with the
    regenerated file in a private tree under ctx.dir (the shared coq/ tree is left alone)."""
    root = os.path.join(ctx.dir, "coq")
    for d in ("Base", "C17"):
        os.makedirs(os.path.join(root, d), exist_ok=True)
        for f in glob.glob(os.path.join(vlib.ROOT, "coq", d, "*.v")):
            shutil.copy(f, os.path.join(root, d, os.path.basename(f)))
    open(os.path.join(root, "C17", "Sites_gen.v"), "w").write(gen_text)
    if scratch_text is not None:
        open(os.path.join(root, "C17", "Scratch_gen.v"), "w").write(scratch_text)
    if errflow_text is not None:
        open(os.path.join(root, "C17", "ErrFlow_gen.v"), "w").write(errflow_text)
    if accum_text is not None:
        open(os.path.join(root, "C17", "Accum_gen.v"), "w").write(accum_text)
    return root


def translate(ctx):
    """Regenerate Sites_gen.v from vlib.REPO (go/ast pass over the job closures). Returns list of failures."""
    tool, tlog = vlib.build_tool("go2coq_c17", "go2coq_c17")
    if tool is None:
        ctx.oblige(1, 0)
        return [{"target": "go2coq_c17 build", "lemma": None, "errors": [tlog[-1500:]]}]
    gen = os.path.join(ctx.dir, "Sites_gen.v")
    rep = os.path.join(ctx.dir, "sites_gen_report.json")
    sgen = os.path.join(ctx.dir, "Scratch_gen.v")
    egen = os.path.join(ctx.dir, "ErrFlow_gen.v")
    agen = os.path.join(ctx.dir, "Accum_gen.v")
    rc, out = vlib.sh([tool, "-repo", vlib.REPO, "-out", gen, "-scratch", sgen, "-errflow", egen, "-accum", agen, "-report", rep], timeout=120, env=vlib.go_env())
    if rc != 0 or not os.path.exists(gen) or not os.path.exists(rep) or not os.path.exists(sgen) or not os.path.exists(egen) or not os.path.exists(agen):
        ctx.oblige(1, 0)
        return [{"target": "go2coq_c17 run", "lemma": None, "errors": [out[-1500:]]}]
    report = json.load(open(rep))
    ctx.cov["access_lists"] = {"closures": report.get("closures"), "accesses": report.get("accesses"), "tool": "go2coq_c17 (go/parser + go/ast)"}
    ctx.oblige(1, 1 if report.get("ok") else 0)
    new = open(gen).read()
    snew = open(sgen).read()
    enew = open(egen).read()
    anew = open(agen).read()
    acommitted_path = os.path.join(vlib.ROOT, "coq", "C17", "Accum_gen.v")
    acommitted = open(acommitted_path).read() if os.path.exists(acommitted_path) else ""
    ests = report.get("estimators") or []
    ctx.cov["accumulator_inventory"] = {
        "batch_estimator_types": len(ests), "changed": anew != acommitted,
        "accumulators": ["%s.%s.%s" % (e["pkg"], e["type"], f["field"]) for e in ests for f in (e.get("fields") or [])
                         if f.get("len_threads") or f.get("updates")],
        "updates": sum(len(f.get("updates") or []) for e in ests for f in (e.get("fields") or [])),
        "folds": sum(len(f.get("merges") or []) for e in ests for f in (e.get("fields") or []))}
    ecommitted_path = os.path.join(vlib.ROOT, "coq", "C17", "ErrFlow_gen.v")
    ecommitted = open(ecommitted_path).read() if os.path.exists(ecommitted_path) else ""
    scopes = [s_ for s_ in (report.get("errscopes") or []) if s_.get("relevant")]
    ops = [(s_, o) for s_ in scopes for o in s_["ops"]]
    ctx.cov["error_flow_inventory"] = {
        "scopes": len(scopes), "calls": len(ops), "changed": enew != ecommitted,
        "pool_operations": sum(1 for _, o in ops if o["kind"] != "call"),
        "by_disposition": {d: sum(1 for _, o in ops if o["disp"] == d) for d in ("returned", "stored", "discarded")},
        "not_returned": ["%s %s %s line %d%s" % (s_["name"], o["name"], o["disp"], o["line"], " (callee cannot fail)" if o.get("nil") else "")
                         for s_, o in ops if o["disp"] != "returned" and (o["chain"] or s_["ret_err"])]}
    committed_path = os.path.join(vlib.ROOT, "coq", "C17", "Sites_gen.v")
    scommitted_path = os.path.join(vlib.ROOT, "coq", "C17", "Scratch_gen.v")
    committed = open(committed_path).read() if os.path.exists(committed_path) else ""
    scommitted = open(scommitted_path).read() if os.path.exists(scommitted_path) else ""
    ctx.cov["access_lists"]["changed"] = new != committed
    ctx.cov["access_lists"]["scratch_methods"] = report.get("scratch_methods")
    ctx.cov["access_lists"]["clone_fields"] = len(report.get("clone_fields") or [])
    ctx.cov["access_lists"]["clone_fields_not_fresh"] = [c for c in (report.get("clone_fields") or []) if not c.get("Fresh")]
    ctx.cov["access_lists"]["scratch_changed"] = snew != scommitted
    if new != committed or snew != scommitted or enew != ecommitted or anew != acommitted:
        if os.path.abspath(vlib.REPO) == "/repo":
            if anew != acommitted:
                open(acommitted_path, "w").write(anew)
            if enew != ecommitted:
                open(ecommitted_path, "w").write(enew)
            if new != committed:
                open(committed_path, "w").write(new)
            if snew != scommitted:
                open(scommitted_path, "w").write(snew)
            ctx.log("Sites_gen.v / Scratch_gen.v regenerated from %s differ from the previous ones: the write-set theorems are re-checked against them" % vlib.REPO)
        else:
            vlib.COQ = private_tree(ctx, new, snew, enew, anew)
            ctx.log("Sites_gen.v / Scratch_gen.v / ErrFlow_gen.v / Accum_gen.v regenerated from %s differ: proofs re-checked in private tree %s" % (vlib.REPO, vlib.COQ))
    return [] if report.get("ok") else [{"target": "go2coq_c17 (no job closure found or parse errors)", "lemma": None,
                                        "errors": [json.dumps(report.get("parse_errors"))[:1500]]}]


def write_set_offenders(ctx):
    """The accesses the decision procedure rejects (printed by Coq), for the violation report."""
    path = os.path.join(ctx.dir, "Offenders_C17.v")
    open(path, "w").write("From Coq Require Import List String.\nFrom ADV Require Import C17.SitesGenDefs C17.Sites_gen.\n"
                          "Eval vm_compute in (flat_map gsite_offenders gen_sites).\nEval vm_compute in (coverage_ok gen_sites).\n")
    rc, out = vlib.coqc_file(path, timeout=300)
    return " ".join(out.split())[-1500:]


def errflow_offenders(ctx):
    """The error-carrying calls whose error is neither returned nor known to be lost (printed by Coq)."""
    path = os.path.join(ctx.dir, "Offenders_C17_errflow.v")
    open(path, "w").write("From Coq Require Import List String Bool.\nFrom ADV Require Import C17.ModelErrFlow C17.ErrFlow_gen.\n"
                          "Eval vm_compute in (flat_map escope_offenders gen_errscopes).\n"
                          "Eval vm_compute in (errflow_coverage gen_errscopes).\n"
                          "Eval vm_compute in (filter (fun k => negb (known_present gen_errscopes k)) known_losses).\n")
    rc, out = vlib.coqc_file(path, timeout=300)
    return " ".join(out.split())[-2500:]


def accum_offenders(ctx):
    """The per-thread accumulators whose description the decision rejects / the expected ones that are gone (printed by Coq)."""
    path = os.path.join(ctx.dir, "Offenders_C17_accum.v")
    open(path, "w").write("From Coq Require Import List String Bool.\nFrom ADV Require Import C17.ModelAccum C17.Accum_gen.\n"
                          "Eval vm_compute in (accum_offenders gen_estimators).\n"
                          "Eval vm_compute in (flat_map (fun e => filter (fun a => is_accumulator a && negb (gaccum_ok a)) (e_acc e)) gen_estimators).\n")
    rc, out = vlib.coqc_file(path, timeout=300)
    return " ".join(out.split())[-2500:]


def scratch_offenders(ctx):
    """Fields written by an evaluation method that Clone() does not allocate afresh / unowned expanded writes (printed by Coq)."""
    path = os.path.join(ctx.dir, "Offenders_C17_scratch.v")
    open(path, "w").write("From Coq Require Import List String Bool.\nFrom ADV Require Import C17.SitesGenDefs C17.Sites_gen C17.ScratchGenDefs C17.Scratch_gen.\n"
                          "Eval vm_compute in (scratch_offenders gen_scratch gen_clone_fields).\n"
                          "Eval vm_compute in (flat_map gsite_offenders (map (expand_site gen_scratch) gen_sites)).\n"
                          "Eval vm_compute in (follows_generic_mixture gen_scratch).\n")
    rc, out = vlib.coqc_file(path, timeout=300)
    return " ".join(out.split())[-2500:]


F_VMIX_RECURSION = {
    "id": "F-VMIX-SETPARAMS-RECURSION", "property": "C17",
    "site": "statistics/vectorDistribution/mixture.go:108 and statistics/matrixDistribution/mixture.go:108 (*Mixture).SetParameters",
    "what": "SetParameters starts with `obj.SetParameters(parameters.Slice(0,n))` - an unconditional call of itself: infinite recursion, "
            "fatal stack overflow (not recoverable) whenever a vector / matrix mixture is an emission of an HMM or a component of a mixture "
            "that is being estimated (Emissions calls Edist[c].SetParameters), sequentially and on every pool; the composite kind mhmm-vmix is "
            "therefore not driven",
}


def vmix_recursion_present():
    hits = []
    for pkg in ("vectorDistribution", "matrixDistribution"):
        p = os.path.join(vlib.REPO, "statistics", pkg, "mixture.go")
        try:
            src = open(p).read()
        except OSError:
            continue
        i = src.find("func (obj *Mixture) SetParameters(")
        if i >= 0:
            body = src[i: src.find("\n}\n", i)]
            if "\n  obj.SetParameters(parameters.Slice(0,n))" in body:
                hits.append(pkg)
    return hits


def fresh_stage(ctx, binary):
    """Structural deep-copy freshness of every Clone* method of the distribution packages (no race needed)."""
    env = vlib.go_env()
    env["C17_REPO"] = vlib.REPO
    rc, out = vlib.sh([binary, "--extra", "fresh", "--out", ctx.dir], timeout=300, env=env)
    p = os.path.join(ctx.dir, "fresh.json")
    if rc != 0 or not os.path.exists(p):
        ctx.oblige(1, 0)
        return [{"what": "the freshness check did not run", "log": out[-1500:], "input": False}]
    r = json.load(open(p))
    ctx.cov["clone_freshness"] = {"clone_methods_in_source": r.get("inventory"), "checked": r.get("checked"),
                                  "storage_objects_walked": r.get("storage_objects_walked"), "shared_mutable": r.get("shared_total"),
                                  "shared_immutable_documented": sorted(set("%s %s" % (x["type"], x["kind"].split("[immutable: ")[-1].rstrip("]"))
                                                                            for x in (r.get("shared_immutable") or []))),
                                  "ignored": r.get("ignored")}
    fails = []
    for u in r.get("uncovered") or []:
        fails.append({"what": "Clone method %s.%s.%s (%s) has no instance in harness/c17/fresh.go: a new cloneable type is not checked" % (
            u["pkg"], u["type"], u["method"], u["pos"]), "input": False})
    for pr in r.get("problems") or []:
        fails.append({"what": "freshness check could not call a Clone method: " + pr, "input": False})
    for pe in r.get("parse_errors") or []:
        fails.append({"what": "freshness inventory: " + pe, "input": False})
    sh = r.get("shared") or []
    if sh:
        fails.append({"what": "%s.%s() at %s is not a deep copy: %s reachable from the clone as %s is the SAME object as %s of the original "
                              "(%d shared objects over all Clone methods): per-thread clones share mutable state" % (
                                  sh[0]["type"], sh[0]["method"], sh[0]["pos"], sh[0]["kind"], sh[0]["path_clone"], sh[0]["path_original"],
                                  r.get("shared_total")), "input": True, "shared": sh[:10]})
    ctx.oblige(1, 0 if fails else 1)
    ctx.log("clone freshness: %s Clone methods in the source, %s checked, %s shared mutable objects, %d documented immutable" % (
        r.get("inventory"), r.get("checked"), r.get("shared_total"), len(r.get("shared_immutable") or [])))
    return fails


# Round 5: losses of an error on the unchanged tree, each demonstrated by a run of harness --extra errflow
F_NUMERIC_ERR = {
    "id": "F-NUMERIC-ERR-DISCARDED", "property": "C17",
    "site": "statistics/scalarEstimator/numeric.go:117,143 (NumericEstimator.Estimate, objective closure) and :190",
    "what": "the objective closure calls p.AddRangeJob(...) and p.Wait(g) as expression statements: an error returned by the density's LogPdf in a job "
            "is dropped on the zero-value pool (AddRangeJob's result) and on every real pool (Wait's result); the objective silently omits the failing "
            "observations and Estimate returns nil with parameters fitted to the rest (pool-size independent: silent for every k)",
}
F_SHAPEHMM_ADD = {
    "id": "F-SHAPEHMM-ADDJOB-DISCARDED", "property": "C17",
    "site": "statistics/matrixEstimator/shapeHmm_data.go:115 (ShapeHmmDataSet.EvaluateLogPdf)",
    "what": "pool.AddRangeJob(...) is an expression statement and only Wait's result is tested: on the zero-value pool (every test of the repository) "
            "an emission LogPdf error (or `probability is zero for all models`) is dropped and the estimation continues on a stale probability table, "
            "on every real pool the same input makes EstimateOnData return the error: the error status depends on the pool size",
}
F_BATCH_ERR = {
    "id": "F-BATCH-ERR-DISCARDED", "property": "C17",
    "site": "statistics/scalarEstimator/logTransform.go:87,93,100,110; translation.go:86,92,99,109; statistics/vectorEstimator/normal.go:200,207 (job closures of Estimate)",
    "what": "the job closures call obj.NewObservation(...) as an expression statement and return nil (Initialize / GetEstimate of the wrapped batch estimator "
            "likewise): a failing wrapped batch estimator (vector NormalEstimator: an observation of the wrong dimension) is skipped silently and Estimate "
            "returns nil, for every pool size alike",
}
KNOWN_ERRFLOW = {
    ("numeric", "logpdf"): (F_NUMERIC_ERR, lambda e: not any(e.values())),
    ("logt", "batch"): (F_BATCH_ERR, lambda e: not any(e.values())),
    ("shapehmm", "logpdf"): (F_SHAPEHMM_ADD, lambda e: (not e["1"]) and all(v for k, v in e.items() if k != "1")),
}


def errflow_stage(ctx, binary):
    """A failing component in every estimator kind on pools 1, 2, 4, 8: the error must come back for every pool size.
    Returns (failures, seeds for the hunt)."""
    rc, out = vlib.sh([binary, "--extra", "errflow", "--seed", str(ctx.seed), "--out", ctx.dir], timeout=300, env=vlib.go_env())
    p = os.path.join(ctx.dir, "errflow.json")
    if rc != 0 or not os.path.exists(p):
        ctx.oblige(1, 0)
        return [{"failure": "the error-flow stage did not run", "log": out[-1500:], "config": None}], []
    rows = json.load(open(p))
    fails, seeds, table = [], [], {}
    for r in rows:
        key = (r["kind"], r["mode"])
        table["%s/%s" % key] = {"error_returned_on_pool": r["err"], "failure_reached": all(r["fired"].values())}
        cfg = {"site": "errflow", "errflow": r["config"]}
        if r.get("panic"):
            fails.append({"failure": "panic: " + r["panic"], "config": cfg, "pool": {"k": 4, "buf": 2}})
            continue
        if key in KNOWN_ERRFLOW:
            kf, witness = KNOWN_ERRFLOW[key]
            if all(r["fired"].values()) and witness(r["err"]):
                ctx.known_finding(kf["id"], kf["what"] + " - witness: failing component reached on pools 1,2,4,8, error returned: %s" % json.dumps(r["err"], sort_keys=True))
            elif all(r["err"].values()):
                ctx.notes.append("%s: the loss is no longer present (the error comes back on every pool)" % kf["id"])
            else:
                fails.append({"failure": "error flags %s of %s/%s differ from the witness of %s" % (json.dumps(r["err"], sort_keys=True), key[0], key[1], kf["id"]),
                              "config": cfg, "pool": {"k": 2, "buf": 2}})
            continue
        seeds.append({"site": "errflow", "pool": {"k": 4, "buf": 2}, "errflow": r["config"]})
        lost = sorted(int(k) for k in r["err"] if r["fired"][k] and not r["err"][k])
        if lost:
            fails.append({"failure": "a failing component (%s, %s) was reached and the estimation returned no error on pools of %s thread(s) (error returned: %s)" % (
                r["kind"], r["mode"], lost, json.dumps(r["err"], sort_keys=True)), "config": cfg, "pool": {"k": max(lost), "buf": 2}})
    ctx.cov["error_flow_runs"] = table
    ctx.oblige(1, 0 if fails else 1)
    ctx.log("error-flow stage: %d estimator kinds with a failing component on pools 1,2,4,8; %d unexpected losses" % (len(rows), len(fails)))
    return fails, seeds


def batch_seeds():
    """Configurations of the batch interface on which every thread of a pool of 4 holds exactly one partial sum (mode spread),
    unweighted and weighted, for every estimator kind: the hunt starts from them when the accumulator decision breaks."""
    xs = {"normal": [1.5, -2.25, 3.0, 0.5, 4.0, -1.0, 2.0, 6.5], "vnormal": [1.0, 2.0, -1.5, 0.5, 3.0, -2.0, 0.25, 4.0, 2.5, 1.0, -3.0, 2.0, 5.0, 0.5, -1.0, -4.0],
          "exponential": [0.5, 1.25, 2.0, 3.5, 0.75, 6.0, 1.0, 4.0], "poisson": [0, 3, 1, 7, 2, 5, 4, 9], "geometric": [0, 3, 1, 7, 2, 5, 4, 9],
          "categorical": [0, 1, 2, 3, 3, 2, 1, 1], "negbin": [1, 3, 2, 7, 2, 5, 4, 9]}
    g = [-0.5, -1.25, 0.0, -2.0, -0.25, -3.0, -1.0, -0.75]
    out = []
    for kind, x in xs.items():
        for w in (None, g):
            out.append({"site": "batch", "pool": {"k": 4, "buf": 100, "nested": 0},
                        "batch": {"kind": kind, "x": x, "d": 2, "g": w, "sigma_min": 1e-8, "spread": True}})
    return out


def shards_of(ctx, stem):
    return sorted(glob.glob(os.path.join(ctx.dir, stem + "_*.v")), key=lambda p: int(p.rsplit("_", 1)[1][:-2]))


def eval_all(ctx, stem, extra_stems=()):
    """Evaluates <stem>_*.v, the extra stems and tol_*.v in one parallel batch.
    Returns (cases, tols, results of cases, results of tols, {extra stem: results})."""
    cases = shards_of(ctx, stem)
    tols = shards_of(ctx, "tol")
    extras = [(st, shards_of(ctx, st)) for st in extra_stems]
    allp = cases + tols
    for _, l in extras:
        allp += l
    res = vlib.eval_shards(allp)
    out = {}
    at = len(cases) + len(tols)
    for st, l in extras:
        out[st] = res[at: at + len(l)]
        at += len(l)
    return cases, tols, res[:len(cases)], res[len(cases):len(cases) + len(tols)], out


def corr(ctx, binary, n, corpus):
    rc, out = vlib.run_harness(ctx, binary, n, extra=corpus)
    if rc != 0:
        ctx.violation({"obligation": "C17 harness run", "log": out[-3000:]}, False,
                      "harness failed on the implementation (crash while running the parallel call sites)")
        return [], []
    meta = json.load(open(os.path.join(ctx.dir, "cases.meta.json")))
    vlib.merge_meta(ctx, meta)
    cases, tols, rc_, rt_, ext = eval_all(ctx, "cases", ("ocases", "sagacases", "ecases", "acases"))
    # a shard that produced neither a result nor a Coq error (killed / timed out on an overloaded machine) is evaluated once more, alone
    def again(rs):
        for i, r in enumerate(rs):
            if not r["ok"] and r["mism"] is None and "Error" not in (r.get("error") or ""):
                rs[i] = vlib.eval_shards([r["path"]], jobs=1)[0]
                ctx.notes.append("shard %s re-evaluated after a coqc run that ended without a Coq error and without a result (killed / deadline)" % os.path.basename(r["path"]))
    again(rc_)
    again(rt_)
    for st in ext:
        again(ext[st])
    ctx.oblige(len(rc_) + len(rt_), sum(1 for r in rc_ + rt_ if r["ok"]))
    raw = vlib.load_jsonl(os.path.join(ctx.dir, "cases.jsonl"))
    rawt = vlib.load_jsonl(os.path.join(ctx.dir, "tol.jsonl")) if os.path.exists(os.path.join(ctx.dir, "tol.jsonl")) else []
    bad, broken = [], []
    for k, r in enumerate(rc_):
        if r["ok"]:
            continue
        if r["mism"] is None:
            broken.append(r)
            continue
        for i in r["mism"]:
            j = k * meta["per_shard"] + i
            bad.append(raw[j] if j < len(raw) else {"site": "?", "index": j})
    for k, r in enumerate(rt_):
        if r["ok"]:
            continue
        if r["mism"] is None:
            broken.append(r)
            continue
        for i in r["mism"]:
            t = rawt[k * 12 + i]
            bad.append({"site": t["site"], "pool": t["pool"], "em": t.get("em"), "bw": t.get("bw"),
                        "out": {"what": t["what"], "go": t["go"]}})
    # option-matrix and SAGA shards
    nextra = 0
    for stem in ("ocases", "sagacases", "ecases", "acases"):
        mp = os.path.join(ctx.dir, stem + ".meta.json")
        if not os.path.exists(mp):
            ctx.oblige(1, 0)
            broken.append({"path": mp, "error": "the harness wrote no %s shards" % stem})
            continue
        m2 = json.load(open(mp))
        vlib.merge_meta(ctx, m2)
        hist = ctx.cov.setdefault("histogram", {})
        for hk, hv in (m2.get("histogram") or {}).items():
            hist[hk] = hist.get(hk, 0) + hv
        ctx.cov.setdefault("extra", {}).update(m2.get("extra") or {})
        raw2 = vlib.load_jsonl(os.path.join(ctx.dir, stem + ".jsonl"))
        nextra += len(raw2)
        rs = ext.get(stem, [])
        ctx.oblige(len(rs), sum(1 for r in rs if r["ok"]))
        for k, r in enumerate(rs):
            if r["ok"]:
                continue
            if r["mism"] is None:
                broken.append(r)
                continue
            for i in r["mism"]:
                j = k * m2["per_shard"] + i
                bad.append(raw2[j] if j < len(raw2) else {"site": stem, "index": j})
    for r in broken:
        ctx.violation({"obligation": "correspondence shard " + os.path.basename(r["path"]), "coqc_error": r["error"]}, False,
                      "correspondence shard did not evaluate")
    ctx.cov["option_matrix_and_saga_cases"] = nextra
    ctx.cov["certified_logadd_goals"] = len(rawt)
    ctx.log("correspondence: %d cases in %d shards + %d certified log-add goals in %d shards, %d mismatching (%.1fs coqc max)" % (
        len(raw), len(rc_), len(rawt), len(rt_), len(bad), max([r["secs"] for r in rc_ + rt_] or [0])))
    return bad, broken


def race_stage(ctx, n):
    """Runtime facts the model cannot exhibit. Supporting evidence; a report on the tree is investigated by the hunt."""
    binary, blog = vlib.build_harness("c17", race=True)
    if binary is None:
        ctx.notes.append("race build failed (CGO?): " + blog[-400:])
        ctx.cov["race"] = {"built": False}
        ctx.oblige(1, 0)
        return [{"failure": "the -race build of the harness failed", "log": blog[-1500:], "kind": "build"}]
    env = vlib.go_env()
    env["GORACE"] = "halt_on_error=0 exitcode=66 history_size=2"
    rdir = os.path.join(ctx.dir, "race")
    os.makedirs(rdir, exist_ok=True)
    rc, out = vlib.sh([binary, "--extra", "race", "--seed", str(ctx.seed), "--n", str(n), "--out", rdir], timeout=600, env=env)
    fails = []
    blocks = out.split("WARNING: DATA RACE")[1:]
    known_blocks = [b for b in blocks if saga_theta_race(b)]
    if known_blocks:
        ctx.cov["race_known"] = {"id": F_SAGA_THETA["id"], "reports": len(known_blocks)}
        ctx.known_finding(F_SAGA_THETA["id"], F_SAGA_THETA["what"] + " — %d race detector report(s)" % len(known_blocks))
        kept_out = out.split("WARNING: DATA RACE")[0]
        for b in blocks:
            if not saga_theta_race(b):
                kept_out += "WARNING: DATA RACE" + b
        out = kept_out
    races = out.count("WARNING: DATA RACE")
    summary = {}
    p = os.path.join(rdir, "race.json")
    if os.path.exists(p):
        try:
            summary = json.load(open(p))
        except ValueError:
            summary = {}
            fails.append({"failure": "race harness wrote an unreadable summary (rc=%s)" % rc, "log": out[-1500:], "kind": "crash"})
        for f in summary.get("failures", []):
            f["kind"] = "oracle"
            fails.append(f)
    elif rc != 66:
        fails.append({"failure": "race harness did not finish (rc=%s)" % rc, "log": out[-1500:], "kind": "crash"})
    if races:
        open(os.path.join(rdir, "race_report.txt"), "w").write(out)
        first = out.index("WARNING: DATA RACE")
        cfg = {}
        mk = out.rfind("@@C17CFG ", 0, first)
        if mk >= 0:
            try:
                cfg = json.loads(out[mk + 9: out.index("\n", mk)])
            except ValueError:
                cfg = {}
        report = out[first: first + 5000]
        fails.append({"failure": "Go race detector reported %d data race(s)" % races, "log": report, "kind": "race",
                      "config": cfg.get("config"), "pool": cfg.get("pool"), "gomaxprocs": cfg.get("gomaxprocs")})
    ctx.cov["race"] = {"label": "supporting evidence (sampled runtime behaviour, not a proof)", "built": True,
                       "configurations": summary.get("runs", 0), "histogram": summary.get("histogram", {}),
                       "data_races_reported": races, "oracle_failures": len(summary.get("failures", [])),
                       "deadline_s": 20, "secs": summary.get("secs")}
    ctx.oblige(1, 0 if fails else 1)
    ctx.log("race stage: %s configurations under -race, %d race reports, %d oracle failures" % (
        summary.get("runs", "?"), races, len(summary.get("failures", []))))
    return fails


def hunt(ctx, binary, bad, n):
    rp = os.path.join(ctx.dir, "hunt_in.json")
    json.dump({"cases": [b for b in bad if isinstance(b, dict)][:24]}, open(rp, "w"))
    rc, out = vlib.sh([binary, "--extra", "hunt", "--replay", rp, "--n", str(n), "--seed", str(ctx.seed), "--out", ctx.dir],
                      timeout=900, env=vlib.go_env())
    hp = os.path.join(ctx.dir, "hunt.json")
    if rc == 0 and os.path.exists(hp):
        h = json.load(open(hp))
        if h.get("found"):
            return h
    return None


# Genuine defect of the unchanged tree, matched narrowly (see corpus/C17/known_findings_proposed.json).
F_BW_NOTRANS = {
    "id": "F-BW-NOTRANS-NILDEREF", "property": "C17",
    "site": "statistics/generic/hmm_baumWelch.go:48 baumWelchThread (reached with BaumWelchOptimizeTransitions{false} / HmmEstimator.OptimizeTransitions = false)",
    "what": "with OptimizeTransitions = false tmp[.].tr is a nil *DenseFloat64Matrix and the reset block of baumWelchThread calls tr.Map on it: "
            "nil pointer dereference in the first job of every step, for every pool size (recoverable on the caller's goroutine, fatal for the "
            "process on a worker goroutine); the harness therefore drives this configuration on the pool of one thread only",
}
F_SAGA_THETA = {
    "id": "F-SAGA-THETA-RACE", "property": "C17",
    "site": "statistics/vectorEstimator/logisticRegression.go:473,475 (LogisticRegression.f_sparse; f_dense:447 alike), called from every SAGA worker job "
            "(sagaLogisticRegressionL1.Execute -> Workers[i].Iterate -> obj.f)",
    "what": "f_sparse stores the worker's parameter vector in the shared field obj.logisticRegression.Theta and then reads it back in LogPdfSparse: "
            "unsynchronised write/read of a shared cell from all SAGA workers (a worker can evaluate its gradient at another worker's point)",
}


def saga_theta_race(block):
    """A race-detector report caused by the shared obj.Theta of the SAGA objective: one side is the objective itself
    (f_sparse / f_dense storing Theta, or LogPdfSparse / LogPdfDense reading through it), the other side is the objective
    or a SAGA worker updating its own x1 (which another worker reads through the shared Theta)."""
    tops = []
    lines = block.split("\n")
    for i, l in enumerate(lines):
        ll = l.strip()
        if (ll.startswith("Write at") or ll.startswith("Read at") or ll.startswith("Previous write at") or ll.startswith("Previous read at")) and i + 1 < len(lines):
            tops.append(lines[i + 1].strip())
    objective = ("(*LogisticRegression).f_sparse()", "(*LogisticRegression).f_dense()", "logisticRegression.LogPdfSparse()", "logisticRegression.LogPdfDense()")
    worker = ("(*sagaLogisticRegressionL1worker).",)
    is_obj = lambda t: any(o in t for o in objective)
    is_wrk = lambda t: any(o in t for o in worker)
    return len(tops) >= 2 and any(is_obj(t) for t in tops) and all(is_obj(t) or is_wrk(t) for t in tops)


F_TP_ERRLATE = {
    "id": "F-TP-ERRLATE", "property": "C17",
    "site": "github.com/pbenner/threadpool threadpool.go AddJob/worker/Wait (used by BaumWelchStep, EmStep and every estimator)",
    "what": "the job wrapper runs wg.Done() before the worker stores the job's error (setError), so Wait can return nil although a "
            "job failed: error propagation is schedule dependent (rare: a few per 10^5 job groups)",
    "match": {"failure_is": "error flag differs: sequential=true parallel=false", "needs_injected_failure": True, "max_loss_rate": 0.02},
}
LOST = "error flag differs: sequential=true parallel=false"


def injected(cfg):
    if not cfg:
        return False
    bw, em = cfg.get("bw"), cfg.get("em")
    return bool((bw and bw.get("fail_rec", -1) >= 0) or (em and em.get("fail_at", -1) >= 0))


def rare_error_loss(ctx, binary, cfg, pool):
    """True iff on this failing configuration the parallel step loses the error only rarely (the threadpool race),
    not systematically (a step that drops the error)."""
    if not injected(cfg) or not pool or pool.get("k", 1) < 2:
        return False
    rp = os.path.join(ctx.dir, "errrate_in.json")
    json.dump({"config": cfg, "pool": pool}, open(rp, "w"))
    rc, out = vlib.sh([binary, "--extra", "errrate", "--replay", rp, "--n", "400", "--out", ctx.dir], timeout=600, env=vlib.go_env())
    p = os.path.join(ctx.dir, "errrate.json")
    if rc != 0 or not os.path.exists(p):
        return False
    r = json.load(open(p))
    ctx.cov.setdefault("known_finding_checks", []).append(r)
    return r.get("sequential_fails") and r["lost"] <= F_TP_ERRLATE["match"]["max_loss_rate"] * r["runs"]


def cfg_of_case(b):
    site = b.get("site", "")
    return {"site": site.replace("-err", ""), "bw": b.get("bw"), "em": b.get("em")}


def is_known(ctx, binary, h):
    """h: {failure, config, pool}"""
    if h.get("failure") == LOST and rare_error_loss(ctx, binary, h.get("config"), h.get("pool")):
        return F_TP_ERRLATE
    return None


def tp_probe(ctx, binary):
    """Replay of the F-TP-ERRLATE witness on the threadpool itself (probabilistic)."""
    rc, out = vlib.sh([binary, "--extra", "tpprobe", "--n", "100000", "--out", ctx.dir], timeout=300, env=vlib.go_env())
    p = os.path.join(ctx.dir, "tpprobe.json")
    if rc == 0 and os.path.exists(p):
        r = json.load(open(p))
        ctx.cov["threadpool_error_probe"] = r
        if r.get("lost", 0) > 0:
            ctx.known_finding(F_TP_ERRLATE["id"], "%s — witness: %d of %d single failing job groups returned nil from Wait" % (
                F_TP_ERRLATE["what"], r["lost"], r["groups"]))
            return True
    return False


def run(ctx):
    ctx.cov["trusted_base"] = vlib.TRUSTED_BASE_COMMON + [
        "go2coq_c17 scratch pass (~350 lines, go/ast): trusted to list the receiver fields an evaluation method writes (assignments, non-read-only method calls on the field or a local alias, destination-argument convention) and to classify how Clone() produces them (call = fresh / copy); the reflective freshness check of harness/c17/fresh.go decides the same question on run-time objects independently",
        "go2coq_c17 accumulator pass (~350 lines, go/ast): trusted to list the slices Initialize allocates per thread, their updates in NewObservation and the loops folding them (operator, transfer, first index, bound, initial target); a fold it does not recognise makes the decision fail (OOther / IOther), it is not skipped",
        "go2coq_c17 (~600 lines of Go, go/parser + go/ast, no type checker): trusted to list the assignments and method calls of the job closures and of the same-package callees it follows; accesses through function values, interface methods and arguments written by a callee are not followed",
        "the threadpool package github.com/pbenner/threadpool (outside the library): assumed to execute every queued job exactly once; its AddRangeJob chunking is probed and compared with the model",
        "Coq-Interval (interval tactic) for the certified log-add comparisons",
        "Go race detector and a 20 s deadline: supporting evidence only",
        "axioms: see 'print_assumptions' (Reals axioms for the R / log-add instances only)"]
    ctx.cov["partial"] = PARTIAL
    ctx.cov["hooks"] = ["statistics/generic/verif_c17.go (VerifC17BaumWelchSnap, VerifC17EmSnap, VerifC17BaumWelchStale, VerifC17EmStale)",
                        "statistics/vectorEstimator/verif_c17.go (VerifC17SagaPartition, VerifC17SagaSequential)"]
    tfail = translate(ctx)
    ok, failures = vlib.proof_stage(ctx, TARGETS, PROPS)
    failures = tfail + failures
    ok = ok and not tfail
    if any(f["target"] in ("C17/ProofsScratch.vo", "C17/Scratch_gen.vo") for f in failures):
        off = scratch_offenders(ctx)
        for f in failures:
            if f["target"] in ("C17/ProofsScratch.vo", "C17/Scratch_gen.vo"):
                f["errors"] = (f.get("errors") or []) + [{"rejected_scratch": off}]
        ctx.log("scratch-cell theorem fails on the generated lists: " + off[:800])
    eproof_broken = any(f["target"] in ("C17/ProofsErrFlowGen.vo", "C17/ErrFlow_gen.vo") for f in failures)
    if eproof_broken:
        off = errflow_offenders(ctx)
        for f in failures:
            if f["target"] in ("C17/ProofsErrFlowGen.vo", "C17/ErrFlow_gen.vo"):
                f["errors"] = (f.get("errors") or []) + [{"error_results_not_propagated": off}]
        ctx.log("error-flow obligation fails on the generated inventory (an error result is not propagated): " + off[:800])
    aproof_broken = any(f["target"] in ("C17/ProofsAccumGen.vo", "C17/Accum_gen.vo") for f in failures)
    if aproof_broken:
        off = accum_offenders(ctx)
        for f in failures:
            if f["target"] in ("C17/ProofsAccumGen.vo", "C17/Accum_gen.vo"):
                f["errors"] = (f.get("errors") or []) + [{"rejected_accumulators": off}]
        ctx.log("accumulator decision fails on the generated description (a per-thread partial sum is lost, counted twice or not thread-owned): " + off[:800])
    if any(f["target"] == "C17/ProofsSitesGen.vo" for f in failures):
        off = write_set_offenders(ctx)
        for f in failures:
            if f["target"] == "C17/ProofsSitesGen.vo":
                f["errors"] = (f.get("errors") or []) + [{"rejected_accesses": off}]
        ctx.log("write-set theorem fails on the generated access lists: " + off[:600])
    thms = vlib.theorem_names(os.path.join(vlib.COQ, "C17/Props.v"))
    if ok:
        ctx.cov["print_assumptions"] = vlib.print_assumptions("C17", [("C17.Props", thms)], ctx.dir)
    binary, blog = vlib.build_harness("c17")
    if binary is None:
        ctx.violation({"obligation": "build of harness/c17 against the library", "log": blog[-3000:]}, False,
                      "tie lost: the C17 harness no longer builds against the library")
        return
    quick = ctx.tier == "quick"
    bad, broken = corr(ctx, binary, 60 if quick else 500, os.path.join(vlib.ROOT, "corpus/C17/corpus.jsonl"))
    ffails = fresh_stage(ctx, binary)
    efails, eseeds = errflow_stage(ctx, binary)
    hits = vmix_recursion_present()
    if hits:
        ctx.known_finding(F_VMIX_RECURSION["id"], F_VMIX_RECURSION["what"] + " - present in " + ", ".join(hits))
    rfails = race_stage(ctx, 1500 if quick else 15000)
    probed = tp_probe(ctx, binary)
    ntp = (ctx.cov.get("extra") or {}).get("bw_no_transitions_panics") or {}
    if ntp.get("panics") and "nil pointer" in (ntp.get("message") or ""):
        ctx.known_finding(F_BW_NOTRANS["id"], F_BW_NOTRANS["what"] + " — Coq: Props.baum_welch_without_transitions_panics_refuted")
    # known finding F-TP-ERRLATE: an injected failure whose error is lost RARELY on a pool of >= 2 threads
    def known_case(b):
        return (b.get("site") in ("bw-err", "em-err") and "Err:false" in (b.get("out") or "")
                and rare_error_loss(ctx, binary, cfg_of_case(b), b.get("pool")))
    kept = []
    for b in bad:
        if known_case(b):
            if not probed:
                ctx.known_finding(F_TP_ERRLATE["id"], F_TP_ERRLATE["what"] + " — seen in the error-injection stream")
                probed = True
        else:
            kept.append(b)
    bad = kept
    kept = []
    for f in rfails:
        if f.get("kind") == "oracle" and is_known(ctx, binary, f):
            if not probed:
                ctx.known_finding(F_TP_ERRLATE["id"], F_TP_ERRLATE["what"] + " — seen in the runtime sampling")
                probed = True
        else:
            kept.append(f)
    rfails = kept
    # the hunt: property-level oracle on the implementation over many schedules
    h = None
    if bad or rfails or not ok or ffails or efails:
        seeds = [{"site": "errflow", "pool": f.get("pool"), "errflow": f["config"]["errflow"]} for f in efails if f.get("config")]
        if eproof_broken or efails:
            seeds += eseeds
        if aproof_broken:
            seeds = batch_seeds() + seeds
        seeds += list(bad)
        for f in rfails:
            if f.get("config"):
                c = f["config"]
                seeds.append({"site": c.get("site"), "pool": f.get("pool", {"k": 4}), "em": c.get("em"), "bw": c.get("bw"),
                              "normal": c.get("normal"), "x": c.get("x"), "full": c.get("full"), "saga": c.get("saga"),
                              "numeric": c.get("numeric"), "comp": c.get("comp"), "errflow": c.get("errflow"), "batch": c.get("batch")})
        h = hunt(ctx, binary, seeds, 300 if quick else 3000)
    else:
        h = hunt(ctx, binary, [], 150 if quick else 1500)
    if h:
        kf = is_known(ctx, binary, h)
        if kf:
            if not probed:
                ctx.known_finding(kf["id"], kf["what"])
            h = None
    if h:
        ctx.violation({"config": h["config"], "pool": h.get("pool"), "gomaxprocs": h.get("gomaxprocs"), "failure": h["failure"],
                       "site": SITE_OF.get(h.get("site"), h.get("site")),
                       "broken": [f["target"] for f in failures] + (["correspondence C17.Corr.check"] if bad else [])},
                      True, "parallel run differs from the sequential run: " + h["failure"][:300])
        return
    for f in efails:
        ctx.violation({"config": f.get("config"), "pool": f.get("pool"), "failure": f["failure"], "site": SITE_OF["errflow"]},
                      bool(f.get("config")), "error propagation through the pool: " + f["failure"][:400])
    for f in ffails:
        ctx.violation({"obligation": "deep-copy freshness of per-thread clones (harness --extra fresh)", "fresh": True,
                       "shared": f.get("shared")}, bool(f.get("input")), f["what"][:900])
    for f in failures:
        ctx.violation({"obligation": f["target"], "lemma": f["lemma"], "errors": f["errors"]}, False,
                      "proof obligation no longer checks: %s %s" % (f["target"], f["lemma"] or ""))
    if bad:
        b = bad[0]
        # a correspondence mismatch IS a property-level statement here: the merged value returned by the Go step is not
        # the sum of the per-job contributions the same code produced sequentially
        ctx.violation({"case": b, "site": SITE_OF.get(b.get("site"), b.get("site")), "mismatching_cases": len(bad),
                       "obligation": "correspondence C17.Corr.check (merged observable vs monoid sum of per-job contributions)"},
                      True, "the step on a pool of %s threads returned a value that is not the sum of the per-job contributions (site %s)" % (
                          (b.get("pool") or {}).get("k"), SITE_OF.get(b.get("site"), b.get("site"))))
    for f in rfails:
        if f["kind"] == "race":
            ctx.violation({"obligation": "race detector run", "race": True, "report": f["log"], "config": f.get("config"),
                           "pool": f.get("pool"), "gomaxprocs": f.get("gomaxprocs")}, bool(f.get("config")),
                          f["failure"] + " (write-set disjointness violated at run time)")
        elif f["kind"] == "oracle":
            ctx.violation({"config": f.get("config"), "pool": f.get("pool"), "gomaxprocs": f.get("gomaxprocs"), "failure": f["failure"]},
                          True, "under -race / deadline: " + f["failure"][:300])
        elif not (bad or failures):
            ctx.violation({"obligation": "race stage", "log": f.get("log")}, False, f["failure"])


def replay(ctx, path):
    rp = json.load(open(path))
    binary, blog = vlib.build_harness("c17")
    if binary is None:
        print(blog)
        return 2
    if rp.get("fresh"):
        ff = fresh_stage(ctx, binary)
        print("deep-copy freshness of the Clone methods: %s" % ("; ".join(f["what"][:400] for f in ff) if ff else "holds"))
        return 1 if ff else 0
    if "config" not in rp and "case" not in rp:
        print("replay names a broken obligation, not an input: %s" % rp.get("obligation"))
        ok, failures = vlib.proof_stage(ctx, TARGETS, PROPS)
        return 0 if ok else 1
    raced = False
    if rp.get("race"):
        rbin, rlog = vlib.build_harness("c17", race=True)
        if rbin is None:
            print(rlog)
            return 2
        env = vlib.go_env()
        env["GORACE"] = "halt_on_error=0 exitcode=66 history_size=2"
        rdir = os.path.join(ctx.dir, "race")
        os.makedirs(rdir, exist_ok=True)
        rc, out = vlib.sh([rbin, "--replay", path, "--out", rdir, "--seed", str(ctx.seed)], env=env, timeout=900)
        raced = "WARNING: DATA RACE" in out
        print("race detector on the replayed configuration (200 schedules): %s" % ("DATA RACE reported" if raced else "no report"))
    rc, out = vlib.sh([binary, "--replay", path, "--out", ctx.dir, "--seed", str(ctx.seed)], env=vlib.go_env(), timeout=900)
    if rc != 0:
        print(out[-2000:])
        return 2
    h = json.load(open(os.path.join(ctx.dir, "hunt.json")))
    cases, tols, rc_, rt_, ext = eval_all(ctx, "replay", ("oreplay", "sreplay", "areplay"))
    agree = all(r["ok"] for r in rc_ + rt_ + ext.get("oreplay", []) + ext.get("sreplay", []) + ext.get("areplay", []))
    print("model recomputation agrees with the implementation on this configuration: %s" % agree)
    print("parallel vs sequential oracle over 200 schedules: %s" % (h["failure"] if h.get("found") else "holds"))
    return 1 if (h.get("found") or not agree or raced) else 0
