"""C14 — probability distributions are proper and consistent (statistics/scalarDistribution)."""
import concurrent.futures as cf
import glob, json, os, re, time
import vlib

TARGETS = ["Base/Num.vo", "C14/ER.vo", "C14/Model.vo", "C14/Spec.vo", "C14/ProofsER.vo", "C14/Corr.vo",
           "C14/SModel.vo", "C14/ProofsHist.vo", "C14/CorrH.vo",
           "C14/ProofsCont.vo", "C14/ProofsDisc.vo", "C14/ProofsNorm.vo", "C14/ProofsCdf.vo", "C14/ProofsCdf2.vo", "C14/ProofsNorm2.vo",
           "C14/ProofsRegress.vo", "C14/VModel.vo", "C14/ProofsVec.vo",
           "C14/MixModel.vo", "C14/ProofsMix.vo", "C14/SkewModel.vo", "C14/ProofsSkew.vo", "C14/IWModel.vo", "C14/ProofsIW.vo",
           "C14/Corr2.vo", "C14/ProofsCdf3.vo", "C14/MixParam.vo", "C14/ProofsMixParam.vo", "C14/ProofsMixParam2.vo", "C14/CorrP.vo",
           "C14/CorrS.vo", "C14/ProofsPdf.vo", "C14/ProofsNorm3.vo", "C14/ProofsVid.vo", "C14/ProofsPoint.vo", "C14/Props.vo"]
PROPS = ["C14/Props.v"]
PARTIAL = ("Theorems are over exact real arithmetic extended by +Inf/-Inf/NaN (coq/C14/ER.v); rounding, overflow and "
           "signed zeros of binary64 are not modelled; the step to binary64 is bounded per sampled case by the "
           "Coq-Interval certificate (tolerance 2^-32 relative). log-gamma, log-erfc and the regularised incomplete gamma "
           "function are Section variables (their values are logged from the Go run in the correspondence: C13's "
           "business); normalisation is proved for the exponential, Pareto, power-law, geometric, Cauchy and generalised Pareto families "
           "(xi >= 0: improper integral; xi < 0: limit 1 at the upper end point) and Laplace (limits of the cdf); GEV: the cdf has the "
           "density as derivative, is strictly increasing and the density integrates to cdf differences on the support for every xi, the "
           "limits 0 / 1 at the ends only for xi = 0 (gumbel_limits_partial); not for the Gamma/Beta-normalised families and not for the "
           "binomial / Poisson / negative-binomial sums. Pdf methods: modelled as exp of LogPdf for every family (the shape of every "
           "Pdf / Cdf method is re-read from the source each run and compared in Coq with the table the dispatcher is proved to obey); "
           "overflow / underflow of exp in binary64 is outside the exact-real model (points where LogPdf overflows are not sampled); "
           "the Pdf of LogisticRegression and the HMM / mixture types have no Pdf or are not modelled; gamma Mean, normal "
           "MagicLogCdf, vector normal Mean / Variance / EllipticCdf and the NIW marginals are not modelled. Point masses at boundary parameters "
           "(negative binomial p = 0, binomial theta = 0 / 1, geometric p = 1) are proved with the hypothesis lgam 1 = 0; negative binomial p = 1 "
           "(total mass 0) is rejected: the constructor accepts exactly r > 0, 0 <= p < 1 (negbinomial_ctor_domain). VectorId (blocks of different dimensions) is proved over abstract components and tied "
           "over ScalarIid blocks only; matrixDistribution.VectorId.LogPdf is not modelled. Vector families (t, normal, ScalarIid, ScalarId, VectorId) "
           "are modelled with the inverse and determinant of Sigma entering as logged data (SigmaInv / SigmaDet fields; "
           "matrixInverse / determinant are other properties' business); the same holds for the skew normal (kappa = "
           "diag(s) omega diag(s): Normal1.SigmaInv / SigmaDet; Phi through the Section hypotheses lerfc = ln erfc, erfc > 0), "
           "the inverse Wishart and the normal-inverse-Wishart (|S|, X^-1, |X|, inverse / determinant of sigma/kappa and "
           "special.Mlgamma are logged; tie for dimensions 1..3, theorems for every dimension; a matrix that is not positive "
           "definite is represented by a logged determinant <= 0). Mixtures: generic.Mixture with the components' own "
           "LogPdf values as logged data (scalar wrapper and vector wrapper over ScalarIid components). Parameter layout "
           "(MixParam.v): Get/SetParameters of the scalar / vector / matrix Mixture, ScalarId / VectorId, ScalarIid / VectorIid "
           "over an abstract component type and over finite nestings of 13 leaf families whose Get/SetParameters copy the "
           "entries (leaf state = its parameter list; that the cached constants follow is SModel.v's theorem and, for the "
           "composite, the hunt's fresh-components reference); a parameter vector has capacity = length (Go's v[i:j] may "
           "reach into spare capacity); vector normal / t / skew normal, the transforms and the discrete log-parametrised "
           "families (binomial, categorical, beta's flag) as mixture components, mixture ImportConfig / ExportConfig (hunt "
           "only, scalar mixtures) and the HMM types are not modelled. Derivative slots are checked only by the hunt (central differences). "
           "Cache coherence over mutator histories (SModel.v) is proved for the 18 scalar families; the state model is "
           "functional (one object): storage shared between an object and its clone / its caller's vectors is outside "
           "it and covered by the hunt only (copies set aside at a Clone, scribbling on argument / returned vectors); "
           "for the vector and matrix families (normal, t, skew normal, inverse Wishart, normal-inverse-Wishart) mutator "
           "histories are decided by the hunt only (fresh-twin comparison bit for bit), not by a Coq state model; "
           "ImportConfig of the wrappers / mixtures / HMMs is not a transition of the model.")


def proposed_findings():
    out = list(vlib.known_findings("C14"))
    p = os.path.join(vlib.ROOT, "corpus/C14/known_findings_proposed.json")
    if os.path.exists(p):
        have = {f["id"] for f in out}
        for f in json.load(open(p)).get("findings", []):
            if f["id"] not in have and f.get("property") == "C14":
                out.append(f)
    return out


def match_known(fail, findings):
    for f in findings:
        m = f.get("match") or {}
        fams = m.get("fam")
        fams = fams if isinstance(fams, list) else [fams]
        if fail["fam"] not in fams or fail["kind"] not in m.get("kinds", []):
            continue
        env = {"ps": fail["p"].get("ps") or [], "zs": fail["p"].get("zs") or [], "x": fail["x"], "v": fail.get("v") or {}, "w": fail.get("w") or {},
               "ops": [o.get("k") for o in (fail.get("ops") or [])], "exp": fail.get("expected") or "", "obs": fail.get("observed") or "",
               "fam": fail["fam"], "abs": abs, "sum": sum, "True": True, "False": False}
        try:
            if eval(m.get("when", "False"), {"__builtins__": {}}, env):
                return f
        except Exception:
            pass
    return None


def eval_cert_shards(paths, timeout=900, jobs=vlib.NCPU):
    """coqc every shard; a shard prints 'MISMATCH <k>%nat' per case whose certificate fails."""
    def one(p):
        t0 = time.time()
        rc, out = vlib.coqc_file(p, timeout=timeout)
        for k in range(4):
            if rc >= 0:
                break
            # killed by a signal (the kernel's OOM killer when the machine is overloaded): not a verdict; wait, try again
            time.sleep(15 * (k + 1))
            rc, out = vlib.coqc_file(p, timeout=timeout)
        r = {"path": p, "secs": round(time.time() - t0, 2), "ok": False, "mism": None, "error": None}
        if rc == 0:
            r["mism"] = [int(x) for x in re.findall(r"MISMATCH (\d+)%nat", out)]
            r["ok"] = not r["mism"]
        else:
            r["error"] = out[-3000:]
        for ext in (".vo", ".vok", ".vos", ".glob"):
            q = p[:-2] + ext
            if os.path.exists(q):
                os.remove(q)
        aux = os.path.join(os.path.dirname(p), "." + os.path.basename(p)[:-2] + ".aux")
        if os.path.exists(aux):
            os.remove(aux)
        return r
    with cf.ThreadPoolExecutor(max_workers=jobs) as ex:
        return list(ex.map(one, paths))


def corr(ctx, binary, n):
    rc, out = vlib.run_harness(ctx, binary, n, extra=os.path.join(vlib.ROOT, "corpus/C14/corpus.jsonl"))
    if rc != 0:
        ctx.violation({"obligation": "C14 harness run", "log": out[-3000:]}, False,
                      "harness failed on the implementation (crash while evaluating distributions)")
        return [], []
    meta = json.load(open(os.path.join(ctx.dir, "cases.meta.json")))
    vlib.merge_meta(ctx, meta)
    shards = sorted(glob.glob(os.path.join(ctx.dir, "cases_*.v")),
                    key=lambda p: int(re.findall(r"_(\d+)\.v$", p)[0]))
    res = eval_cert_shards(shards)
    ctx.oblige(len(res), sum(1 for r in res if r["ok"]))
    cases = vlib.load_jsonl(os.path.join(ctx.dir, "cases.jsonl"))
    bad = []
    for r in res:
        if r["mism"] is None:
            ctx.violation({"obligation": "correspondence shard " + os.path.basename(r["path"]),
                           "coqc_error": r["error"]}, False, "correspondence shard did not evaluate")
            continue
        for i in r["mism"]:
            bad.append(cases[i])
    # A certificate that fails inside a crowded shard on an overloaded machine is not a verdict yet: every
    # mismatching case is evaluated once more, alone (same path as --replay); a deterministic disagreement
    # fails again and stays in `bad`, whatever goes wrong in the re-evaluation keeps the case in `bad` too.
    if 0 < len(bad) <= 12:
        still = []
        for k, c in enumerate(bad):
            keep = True
            try:
                d = os.path.join(ctx.dir, "recheck_%d" % k)
                os.makedirs(d, exist_ok=True)
                rp = os.path.join(d, "case.json")
                json.dump({"case": c}, open(rp, "w"))
                vlib.sh([binary, "--replay", rp, "--out", d], env=vlib.go_env())
                rr = eval_cert_shards(sorted(glob.glob(os.path.join(d, "replay_*.v"))), jobs=1)
                if rr and all(x["ok"] for x in rr):
                    keep = False
                    ctx.log("mismatch of %s %s not reproduced when its certificate is evaluated alone: dropped" % (c.get("fam"), c.get("fn")))
            except Exception as e:
                ctx.log("re-evaluation of a mismatching case failed (%s): case kept" % e)
            if keep:
                still.append(c)
        bad = still
    incons = (meta.get("extra") or {}).get("inconsistent") or []
    ctx.log("correspondence: %d certified evaluations in %d shards (max %.0fs), %d mismatching, %d type/register-dependent" % (
        len(cases), len(res), max([r["secs"] for r in res] or [0]), len(bad), len(incons)))
    return bad, incons


def hunt(ctx, binary, bad):
    rp = os.path.join(ctx.dir, "hunt_in.json")
    json.dump({"cases": bad[:200]}, open(rp, "w"))
    n = 40 if ctx.tier == "quick" else 400
    rc, out = vlib.sh([binary, "--extra", "hunt", "--replay", rp, "--n", str(n), "--seed", str(ctx.seed),
                       "--out", ctx.dir], timeout=900, env=vlib.go_env())
    hp = os.path.join(ctx.dir, "hunt.json")
    if rc == 0 and os.path.exists(hp):
        return json.load(open(hp))
    ctx.violation({"obligation": "C14 hunt run", "log": out[-3000:]}, False, "hunt oracle crashed")
    return {"failures": [], "tried": 0}


# types whose mutators are transitions of the state model coq/C14/SModel.v (proved coherent over all histories)
STATE_MODELLED = {"scalarDistribution": ["BetaDistribution", "BinomialDistribution", "CategoricalDistribution", "CauchyDistribution",
                                         "ChiSquaredDistribution", "DeltaDistribution", "ExponentialDistribution", "GParetoDistribution",
                                         "GammaDistribution", "GeneralizedGammaDistribution", "GeometricDistribution", "GevDistribution",
                                         "LaplaceDistribution", "NegativeBinomialDistribution", "NormalDistribution", "ParetoDistribution",
                                         "PoissonDistribution", "PowerLawDistribution"]}


def inventory(ctx, binary):
    """go/ast inventory of every method that writes its receiver in the three distribution packages, against the
    committed one (corpus/C14/mutators.json): a new mutator, or a mutator writing other fields / in another order,
    is outside the state model."""
    rc, out = vlib.sh([binary, "--extra", "inventory", "--replay", vlib.REPO, "--out", ctx.dir], timeout=120, env=vlib.go_env())
    ip = os.path.join(ctx.dir, "inventory.json")
    if rc != 0 or not os.path.exists(ip):
        ctx.violation({"obligation": "C14 mutator inventory", "log": out[-2000:]}, False, "mutator inventory could not be taken")
        return
    key = lambda t: (t["pkg"], t["type"])
    now = {key(t): t for t in json.load(open(ip))["types"]}
    exp = {key(t): t for t in json.load(open(os.path.join(vlib.ROOT, "corpus/C14/mutators.json")))["types"]}
    diffs = []
    for k in sorted(set(now) | set(exp)):
        a, b = exp.get(k), now.get(k)
        if a is None:
            if b["methods"]:
                diffs.append("new type %s.%s with mutators %s" % (k[0], k[1], [m["name"] for m in b["methods"]]))
        elif b is None:
            diffs.append("type %s.%s is gone" % k)
        else:
            if a["fields"] != b["fields"]:
                diffs.append("%s.%s: fields %s, were %s" % (k[0], k[1], b["fields"], a["fields"]))
            ma, mb = {m["name"]: m["writes"] for m in a["methods"]}, {m["name"]: m["writes"] for m in b["methods"]}
            for n in sorted(set(ma) | set(mb)):
                if ma.get(n) != mb.get(n):
                    diffs.append("%s.%s.%s writes %s, modelled as %s" % (k[0], k[1], n, mb.get(n), ma.get(n)))
    # round 6: the shape of every Pdf / Cdf method, re-generated from the source as a Coq definition and compared
    # inside Coq with the table the model is proved about (coq/C14/CorrS.v model_shapes; ProofsPdf.exp_wrappers_sound)
    gs = os.path.join(ctx.dir, "gen_shapes.v")
    shape_ok = False
    if os.path.exists(gs):
        r = eval_cert_shards([gs], timeout=300, jobs=1)[0]
        shape_ok = r["ok"]
        if not shape_ok:
            model = set(re.findall(r'\("(\w+)", "(\w+)", "(\w+)", (SOther|SExpOf "\w+")\)',
                                   open(os.path.join(vlib.COQ, "C14/CorrS.v")).read()))
            try:
                gen = {(g["Pkg"], g["Type"], g["Method"], g["Shape"]) for g in json.load(open(os.path.join(ctx.dir, "gen_shapes.json")))}
            except Exception:
                gen = set()
            for e in sorted(gen - model):
                diffs.append("%s.%s.%s has the shape %s in the source, which is not what the model is proved about" % e)
            for e in sorted(model - gen):
                diffs.append("%s.%s.%s: the model is proved about the shape %s, the source no longer has it" % e)
            if r["error"]:
                diffs.append("gen_shapes.v did not compile: " + r["error"][-300:])
            if not (gen ^ model) and not r["error"]:
                diffs.append("gen_shapes <> model_shapes (order / duplicates)")
    else:
        diffs.append("the inventory wrote no gen_shapes.v")
    ctx.oblige(1, 1 if shape_ok else 0)
    ctx.cov["pdf_cdf_method_shapes"] = {"regenerated_table_equals_model_table": shape_ok,
                                        "note": "go/ast: every Pdf / Cdf method of the three packages is classified as exp-wrapper of M or a body of "
                                                "its own; Coq checks gen_shapes = CorrS.model_shapes"}
    nm = sum(len(t["methods"]) for t in now.values())
    modelled = sum(len(now[(p, t)]["methods"]) for p, ts in STATE_MODELLED.items() for t in ts if (p, t) in now)
    ctx.cov["mutator_inventory"] = {"types": len(now), "receiver_writing_methods": nm, "state_modelled_methods": modelled,
                                    "differences": diffs}
    ctx.oblige(1, 0 if [d for d in diffs if "shape" not in d] else 1)
    ctx.log("mutator inventory: %d types, %d receiver-writing methods (%d are transitions of the state model), Pdf/Cdf method shapes %s, %d differences" % (
        len(now), nm, modelled, "as modelled" if shape_ok else "DIFFER", len(diffs)))
    return diffs


def run(ctx):
    ctx.cov["trusted_base"] = vlib.TRUSTED_BASE_COMMON + [
        "Coq-Interval 4.x reflexive tactic `interval` (per-case certificates; may use primitive 63-bit integers/floats inside vm_compute)",
        "Coquelicot / Flocq libraries; standard-library real-number axioms (see print_assumptions)",
        "logged values of math.Lgamma, special.LogErfc, special.GammaP at the arguments of each case (hypotheses of the per-case proposition)"]
    ctx.cov["partial"] = PARTIAL
    ok, failures = vlib.proof_stage(ctx, TARGETS, PROPS)
    thms = vlib.theorem_names(os.path.join(vlib.COQ, "C14/Props.v"))
    pa_pool, pa_futs = None, []
    if ok:
        # Print Assumptions of ~100 theorems costs ~100 s in one process (each call walks the Coquelicot / Interval
        # closure): chunks run in parallel processes, in the background of the correspondence
        k = 10
        pa_pool = cf.ThreadPoolExecutor(max_workers=k)
        for i in range(k):
            chunk = thms[i::k]
            if chunk:
                pa_futs.append(pa_pool.submit(vlib.print_assumptions, "C14_%d" % i, [("C14.Props", chunk)],
                                              os.path.join(ctx.dir, "assumptions")))
    binary, blog = vlib.build_harness("c14")
    if binary is None:
        ctx.violation({"obligation": "build of harness/c14 against the library", "log": blog[-3000:]}, False,
                      "tie lost: the C14 harness no longer builds against the library")
        return
    n = 400 if ctx.tier == "quick" else 6000
    inv_diffs = inventory(ctx, binary)
    bad, incons = corr(ctx, binary, n)
    h = hunt(ctx, binary, bad + incons)
    ctx.cov["hunt"] = {"tried": h.get("tried"), "failures": len(h.get("failures", []))}
    if pa_futs:
        pa = {}
        for fu in pa_futs:
            pa.update(fu.result())
        pa_pool.shutdown()
        names = sorted({n for v in pa.values() for n in re.findall(r"([A-Za-z0-9_.']+) : ", v)
                        if "." in n and not n.startswith(("BinNums", "BinInt"))})
        closed = sum(1 for v in pa.values() if v.startswith("Closed"))
        ctx.cov["print_assumptions"] = {
            "theorems": len([k for k in pa if k != "_error"]), "closed_under_global_context": closed, "axioms_used": names,
            "note": "formula/support/ctor/norm/cdf theorems: standard Reals + classical axioms only; the *_regress "
                    "lemmas are proved with Coq-Interval and additionally list its primitive int63/float axioms"}
        if "_error" in pa:
            ctx.cov["print_assumptions"]["error"] = pa["_error"][-500:]
    findings = proposed_findings()
    unknown, hit = [], {}
    for f in h.get("failures", []):
        kf = match_known(f, findings)
        if kf:
            hit.setdefault(kf["id"], kf)
        else:
            unknown.append(f)
    for fid, kf in sorted(hit.items()):
        ctx.known_finding(fid, kf["what"])
    reported = set()
    for f in unknown:
        key = (f["fam"], f["kind"], f["fn"])
        if key in reported:
            continue
        reported.add(key)
        case = {"fam": f["fam"], "fn": f["fn"] if f["fn"] in ("LogPdf", "LogCdf", "Cdf", "Pdf", "Posterior", "Likelihood", "LogWeights") else "LogPdf",
                "p": f["p"], "x": f["x"], "v": f.get("v")}
        if f.get("w") is not None:
            case["w"] = f["w"]
        if f.get("ops") is not None:
            case["ops"] = f["ops"]      # mutator history between the constructor and the method
        ctx.violation({"case": case, "failure": f,
                       "broken": [x["target"] for x in failures] + (["correspondence C14.Corr"] if bad else [])},
                      True, "%s %s: %s of %s at x=%s with parameters %s: observed %s, expected %s" % (
                          f["fam"], f["kind"], f["fn"], f["fam"], (f.get("v") or {}).get("x", f["x"]),
                          f.get("v") or f.get("w") or f["p"], f["observed"], f["expected"]))
    if inv_diffs and not unknown:
        ctx.violation({"obligation": "C14 mutator inventory (corpus/C14/mutators.json)", "differences": inv_diffs[:20]}, False,
                      "tie lost: the exported mutators / Pdf-Cdf method shapes of the distribution types differ from the ones the model covers: "
                      + "; ".join(inv_diffs[:3]))
    if not unknown:
        for f in failures:
            ctx.violation({"obligation": f["target"], "lemma": f["lemma"], "errors": f["errors"]}, False,
                          "proof obligation no longer checks: %s %s" % (f["target"], f["lemma"] or ""))
        for c in incons[:3]:
            ctx.violation({"case": c}, True, "%s %s: %s" % (c["fam"], c["fn"], c["incons"]))
        if bad:
            c = bad[0]
            ctx.violation({"case": c, "all_mismatching": bad[:20],
                           "obligation": "correspondence C14.Corr (R model vs implementation, Coq-Interval certificate)"},
                          False, "model and implementation disagree (%d cases, first: %s %s p=%s x=%s observed %s) but the "
                          "property oracle found no input violating the property" % (
                              len(bad), c["fam"], c["fn"], c["p"], c["x"], c["obs"]))


def replay(ctx, path):
    rp = json.load(open(path))
    binary, blog = vlib.build_harness("c14")
    if binary is None:
        print(blog); return 2
    if "case" not in rp:
        print("replay names a broken obligation, not an input: %s" % rp.get("obligation"))
        ok, failures = vlib.proof_stage(ctx, TARGETS, PROPS)
        return 0 if ok else 1
    vlib.sh([binary, "--replay", path, "--out", ctx.dir], env=vlib.go_env())
    res = eval_cert_shards(sorted(glob.glob(os.path.join(ctx.dir, "replay_*.v"))))
    agree = all(r["ok"] for r in res) and bool(res)
    hin = os.path.join(ctx.dir, "hunt_in.json")
    json.dump({"cases": [rp["case"]]}, open(hin, "w"))
    vlib.sh([binary, "--extra", "hunt", "--replay", hin, "--n", "0", "--out", ctx.dir], env=vlib.go_env())
    h = json.load(open(os.path.join(ctx.dir, "hunt.json")))
    findings = proposed_findings()
    fails = [f for f in h.get("failures", []) if not match_known(f, findings)]
    print("model/implementation agree on the replayed case (certified): %s" % agree)
    print("property oracle on the implementation: %s" % ("; ".join("%s %s observed %s expected %s" % (
        f["fam"], f["kind"], f["observed"], f["expected"]) for f in fails) if fails else "holds"))
    return 1 if (fails or not agree) else 0
