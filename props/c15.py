"""C15 — HMM and mixture inference equals explicit enumeration of hidden paths."""
import glob, json, os, shutil
import vlib

TARGETS = ["Base/Corr.vo", "C15/Model.vo", "C15/ModelBuf.vo", "C15/ModelCH.vo", "C15/ModelSet.vo", "C15/ModelCls.vo", "C15/ModelHist.vo",
           "C15/Corr.vo", "C15/CorrCH.vo", "C15/Spec.vo", "C15/SpecTest.vo",
           "C15/ProofsSum.vo", "C15/ProofsFwd.vo", "C15/ProofsBwd.vo", "C15/ProofsBuf.vo", "C15/ProofsOpt.vo", "C15/ProofsVit.vo",
           "C15/ProofsVitInst.vo", "C15/ProofsMix.vo", "C15/ProofsLog.vo", "C15/ProofsTop.vo", "C15/ProofsPost.vo", "C15/ProofsBW.vo", "C15/ProofsTop2.vo",
           "C15/Proofs.vo", "C15/Props.vo", "C15/ProofsCH.vo", "C15/PropsCH.vo", "C15/ProofsSet.vo", "C15/ProofsSet2.vo", "C15/PropsSet.vo",
           "C15/ProofsCls.vo", "C15/PropsCls.vo", "C15/ProofsHist.vo", "C15/PropsHist.vo",
           "C15/ProofsBWN.vo", "C15/PropsBWN.vo", "C15/ProofsMix2.vo", "C15/PropsMix.vo", "C15/ProofsZero.vo", "C15/PropsZero.vo"]
PROPS = ["C15/Props.v", "C15/PropsCH.v", "C15/PropsSet.v", "C15/PropsCls.v", "C15/PropsHist.v", "C15/PropsBWN.v", "C15/PropsMix.v", "C15/PropsZero.v"]
PARTIAL = ("Theorems are about the hand-written semiring-polymorphic models coq/C15/Model.v (pure functions), "
           "coq/C15/ModelBuf.v (forward/backward/float64 copies, Posterior and one Baum-Welch step of a thread as state "
           "transformers on work buffers with arbitrary prior content), coq/C15/ModelCH.v (constrained / hierarchical "
           "transition matrices), coq/C15/ModelCls.v (round 6: the classifier front-ends vectorClassifier.HmmPosterior / "
           "HmmClassifier) and coq/C15/ModelHist.v (round 6: the config round trip as a history step); exact arithmetic in a "
           "commutative semiring; the log-space float code is connected "
           "through the ln/exp isomorphism stated over R and, per sampled case, through the exact-rational comparison of "
           "exp(value) with relative tolerance 2^-36; binary64 rounding itself is not proved. Round 7: a state with exactly zero emission density at any position k < n gets "
           "alpha(i,k) = zero from float64ForwardBackward on any work matrices, fresh or recycled from earlier records (coq/C15/PropsZero.v; "
           "a corollary of the buffer theorems, tied by table / bw cases with a zero forced at an interior position; exact semiring, "
           "-Inf arithmetic of binary64 compared per case). Posterior theorem: "
           "duplicate-free state sets below m; with repeated states the claim is refuted (multiset value, compared per "
           "case); HmmPosterior.Eval likewise (proved for any list as the sum of the listed marginals, for duplicate-free lists "
           "as the enumerated probability of the set). Constrained HMM: the Lagrange multipliers of ChmmTransitionMatrix.Normalize come from Newton's method "
           "and are oracle data (theorems hold for every multiplier vector; that the rows then sum to one is exactly the "
           "root condition and is checked per case at 2^-20, not proved). Hierarchical HMM: row-stochasticity proved for "
           "leaf blocks only (inner nodes: per case, exact). Baum-Welch: expected counts of ONE thread; merging threads is "
           "C17, the emission M-step C16; hmm1.normalize: the re-estimated Pi / Tr are proved to be distributions (rows without "
           "mass: self loop) as functions of the expected counts, and executed and compared per case. matrixDistribution.Hmm / "
           "ShapeHmm share generic.Hmm's inference code and differ only in the emission table, over which the theorems "
           "quantify; the vectorClassifier front-ends are exercised through every wrapper built on vectorDistribution.Hmm "
           "(cat, chmm/hhmm with categorical emissions, histories), with Float64 result vectors only; vectorDistribution.Mixture "
           "through ScalarId components (kind mixvec); round 7: Mixture.Posterior / Likelihood proved invariant under any reordering "
           "of the component list and complementary subsets proved to sum to one (coq/C15/PropsMix.v, exact semifield; the float "
           "LogAdd order dependence is inside the 2^-36 tolerance of the per-case comparison), every ordering of every subset compared per case for "
           "k <= 3, two non-ascending orders per subset for k = 4; repeated components in a list: multiset value (compared per case, "
           "not covered by the complement theorem). Histories (coq/C15/ModelSet.v, ModelHist.v): generic.Hmm / "
           "vectorDistribution.Hmm under SetStartStates / SetFinalStates / SetParameters / Clone / "
           "ImportConfig(json(ExportConfig())) in any order and number; "
           "the invariant Tf = normalise-final(current Tr, current final states) is proved for every such history, the "
           "object's Pi / Tr / sets follow a machine without derived state; Pi is not "
           "derived state (SetParameters stores it raw: F-C15-SETPARAMS-START, refuted on the model; a successful config "
           "round trip is proved to restore the mask); the round trip returns the normalisation error when Pi has no mass (proved; "
           "regression cases of the repaired F-C15-PIVEC-ERR-SWALLOWED in the corpus); ImportConfig of hand-written / inconsistent configuration files is not modelled; "
           "SetParameters on a "
           "constrained / hierarchical HMM panics in the unchanged library (F-C15-SETPARAMS-UNCOMPARABLE), so for those "
           "only constructor + one SetStartStates / SetFinalStates are modelled; the Baum-Welch "
           "re-normalisation as a history step is not modelled (it is compared per case, kind bw).")
# genuine quirks of the unchanged library, matched narrowly (id, site, fixed witness evaluated by the harness)
KNOWN_IDS = {
    "F-C15-TF-SELFLOOP": "statistics/generic/hmm_utility.go:126 (HmmTransitionMatrix.Normalize via Hmm.normalizeTf): a state without "
                         "transitions into the final states gets Tf[i][i] = 1, so sequences can end outside the final states",
    "F-C15-HHMM-FINAL-NAN": "statistics/generic/hierarchicalHmm.go:226-235 (normalizeLeaf via Hmm.normalizeTf / SetFinalStates): a leaf "
                            "without a final state has all-zero masked rows, -Inf - -Inf = NaN in Tf, LogPdf of every sequence of length >= 2 is NaN",
    "F-C15-HHMM-FINAL-LEAK": "statistics/generic/hierarchicalHmm.go:190-214 (normalizeInt via Hmm.normalizeTf / SetFinalStates): the block "
                             "between two children is overwritten with its average, masked non-final columns get probability again",
    "F-C15-HHMM-ZEROROW-NAN": "statistics/generic/hierarchicalHmm.go:226-235 (normalizeLeaf): a row without mass inside its leaf yields NaN "
                              "entries, NewHhmmTransitionMatrix / NewHierarchicalHmm return no error",
    "F-C15-CHMM-FINAL-TIE": "statistics/generic/constrainedHmm.go:199-201 (normalize(lambda) via Hmm.normalizeTf / SetFinalStates): a constraint "
                            "group spanning a final and a non-final column re-creates the masked transition in Tf",
    "F-C15-SETPARAMS-START": "statistics/generic/hmm.go:660 (Hmm.SetParameters): Pi.Set(parameters) overwrites the Pi that SetStartStates "
                             "masked, without re-applying the start-state restriction (Tf, by contrast, is re-derived)",
    "F-C15-SETPARAMS-UNCOMPARABLE": "statistics/generic/hmm.go:661 (Hmm.SetParameters): obj.Tr == obj.Tf compares interface values holding "
                                    "ChmmTransitionMatrix / HhmmTransitionMatrix (structs with slices): run-time panic on every constrained / hierarchical HMM",
}
HOOK_SRC = os.path.join(vlib.ROOT, "harness", "c15", "hook", "verif_c15.go.txt")


def install_hook():
    """add-only hook (build tag verif): float64ForwardBackward on fresh and on caller-supplied matrices, generic forwardBackward on
    caller-supplied matrices, poisoning / reading of the Baum-Welch per-thread memory; installed into the library tree that is checked"""
    dst = os.path.join(vlib.REPO, "statistics", "generic", "verif_c15.go")
    src = open(HOOK_SRC).read()
    if not os.path.exists(dst) or open(dst).read() != src:
        open(dst, "w").write(src)


def coq_jobs():
    """parallel coqc workers for the correspondence shards; VERIF_COQ_JOBS caps it on a loaded machine"""
    try:
        return max(1, min(vlib.NCPU, int(os.environ.get("VERIF_COQ_JOBS", vlib.NCPU))))
    except ValueError:
        return vlib.NCPU


def corr(ctx, binary, n, corpus):
    rc, out = vlib.run_harness(ctx, binary, n, extra=corpus)
    if rc != 0:
        ctx.violation({"obligation": "C15 harness run", "log": out[-3000:]}, False,
                      "harness failed on the implementation")
        return []
    meta = json.load(open(os.path.join(ctx.dir, "cases.meta.json")))
    vlib.merge_meta(ctx, meta)
    shards = sorted(glob.glob(os.path.join(ctx.dir, "cases_*.v")),
                    key=lambda p: int(os.path.basename(p)[6:-2]))
    res = vlib.eval_shards(shards, jobs=coq_jobs())
    ctx.oblige(len(res), sum(1 for r in res if r["ok"]))
    cases = vlib.load_jsonl(os.path.join(ctx.dir, "cases.jsonl"))
    bad = []
    for k, r in enumerate(res):
        if r["ok"]:
            continue
        if r["mism"] is None:
            ctx.violation({"obligation": "correspondence shard " + os.path.basename(r["path"]),
                           "coqc_error": r["error"]}, False, "correspondence shard did not evaluate")
            continue
        for i in r["mism"]:
            bad.append(cases[k * meta["per_shard"] + i])
    ctx.log("correspondence: %d cases in %d shards (%.0fs coqc), %d mismatching" % (
        len(cases), len(res), sum(r["secs"] for r in res), len(bad)))
    return bad


def hunt(ctx, binary, bad):
    rp = os.path.join(ctx.dir, "hunt_in.json")
    json.dump({"cases": bad[:50]}, open(rp, "w"))
    n = 20000 if ctx.tier == "quick" else 40000   # thorough: the harness multiplies by 10
    rc, out = vlib.sh([binary, "--extra", "hunt", "--replay", rp, "--n", str(n), "--seed", str(ctx.seed),
                       "--tier", ctx.tier, "--out", ctx.dir], timeout=1500, env=vlib.go_env())
    hp = os.path.join(ctx.dir, "hunt.json")
    if rc == 0 and os.path.exists(hp):
        h = json.load(open(hp))
        ctx.cov.setdefault("extra", {})["hunt"] = {"tried": h.get("tried"), "grid_models": h.get("grid_models"), "grid_mixtures": h.get("grid_mixtures"),
                                                   "grid_mix": "all 1728 3-component mixtures with unnormalised weights in {0,1/4,1/2,1} and densities in {0,1/2,1}: Posterior / Likelihood on every ordering of every component subset against the explicit sum, complementary subsets sum to one",
                                                   "grid": "2-state models, probabilities in {0,1/4,1/2,3/4,1}, categorical emissions over 2 symbols, start/final in {none,{0},{1}}, all observation sequences of length 1..4; Go-side brute-force enumeration"}
        for k in h.get("known") or []:
            if k.get("still") and k.get("id") in KNOWN_IDS:
                ctx.known_finding(k["id"], KNOWN_IDS[k["id"]] + " -- " + k.get("what", ""))
        if h.get("found"):
            return h
        return None
    ctx.violation({"obligation": "C15 hunt run", "log": out[-3000:]}, False, "hunt crashed on the implementation")
    return None


def is_known(h):
    for f in vlib.known_findings("C15"):
        w = f.get("match", {})
        if w.get("failure_contains") and w["failure_contains"] in h.get("failure", ""):
            return f
    return None


def run(ctx):
    ctx.cov["trusted_base"] = vlib.TRUSTED_BASE_COMMON + [
        "Go math.Exp/math.Log on the observed log-values (the comparison is on exp(value), relative tolerance 2^-36, decided in exact rational arithmetic inside Coq)",
        "Coq standard-library axioms of the classical reals for the R-instances (see print_assumptions)"]
    ctx.cov["partial"] = PARTIAL
    install_hook()
    ok, failures = vlib.proof_stage(ctx, TARGETS, PROPS)
    thms = vlib.theorem_names(os.path.join(vlib.COQ, "C15/Props.v"))
    thms2 = vlib.theorem_names(os.path.join(vlib.COQ, "C15/PropsCH.v"))
    thms3 = vlib.theorem_names(os.path.join(vlib.COQ, "C15/PropsSet.v"))
    thms4 = vlib.theorem_names(os.path.join(vlib.COQ, "C15/PropsCls.v"))
    thms5 = vlib.theorem_names(os.path.join(vlib.COQ, "C15/PropsHist.v"))
    thms6 = vlib.theorem_names(os.path.join(vlib.COQ, "C15/PropsBWN.v"))
    thms7 = vlib.theorem_names(os.path.join(vlib.COQ, "C15/PropsMix.v"))
    thms8 = vlib.theorem_names(os.path.join(vlib.COQ, "C15/PropsZero.v"))
    if ok:
        ctx.cov["print_assumptions"] = vlib.print_assumptions("C15", [("C15.Props", thms), ("C15.PropsCH", thms2), ("C15.PropsSet", thms3),
                                                                      ("C15.PropsCls", thms4), ("C15.PropsHist", thms5),
                                                                      ("C15.PropsBWN", thms6), ("C15.PropsMix", thms7), ("C15.PropsZero", thms8)], ctx.dir)
    binary, blog = vlib.build_harness("c15")
    if binary is None:
        ctx.violation({"obligation": "build of harness/c15 against the library", "log": blog[-3000:]}, False,
                      "tie lost: the C15 harness no longer builds against the library")
        return
    n = 150 if ctx.tier == "quick" else 1500
    bad = corr(ctx, binary, n, os.path.join(vlib.ROOT, "corpus/C15/corpus.jsonl"))
    h0 = hunt(ctx, binary, bad)
    if h0:
        kf = is_known(h0)
        if kf:
            ctx.known_finding(kf["id"], kf["what"])
            h0 = None
    broken = [f["target"] for f in failures] + (["correspondence C15.Corr.check"] if bad else [])
    if h0:
        ctx.violation({"case": h0["case"], "failure": h0["failure"], "broken": broken}, True,
                      "HMM/mixture inference differs from the explicit enumeration of hidden paths: " + h0["failure"])
    elif bad or not ok:
        for f in failures:
            ctx.violation({"obligation": f["target"], "lemma": f["lemma"], "errors": f["errors"]}, False,
                          "proof obligation no longer checks: %s %s" % (f["target"], f["lemma"] or ""))
        if bad:
            ctx.violation({"case": bad[0], "obligation": "correspondence C15.Corr.check (model vs implementation)"},
                          False, "model and implementation disagree on an input, but no input violating the property was found")


def replay(ctx, path):
    rp = json.load(open(path))
    install_hook()
    binary, blog = vlib.build_harness("c15")
    if binary is None:
        print(blog); return 2
    if "case" not in rp:
        print("replay names a broken obligation, not an input: %s" % rp.get("obligation"))
        ok, failures = vlib.proof_stage(ctx, TARGETS, PROPS)
        return 0 if ok else 1
    vlib.coq_make(["C15/CorrCH.vo"])
    rc, out = vlib.sh([binary, "--replay", path, "--out", ctx.dir], env=vlib.go_env())
    res = vlib.eval_shards(sorted(glob.glob(os.path.join(ctx.dir, "replay_*.v"))), jobs=coq_jobs())
    hin = os.path.join(ctx.dir, "hunt_in.json")
    json.dump({"cases": [rp["case"]]}, open(hin, "w"))
    vlib.sh([binary, "--extra", "hunt", "--replay", hin, "--n", "0", "--out", ctx.dir], env=vlib.go_env())
    h = json.load(open(os.path.join(ctx.dir, "hunt.json")))
    agree = bool(res) and all(r["ok"] for r in res)
    print("model/implementation agree on the replayed input: %s" % agree)
    print("property oracle on the implementation: %s" % (h["failure"] if h.get("found") else "holds"))
    return 1 if (h.get("found") or not agree) else 0
