"""C09 — generic and concrete-typed methods are interchangeable."""
import glob, json, os
import vlib

TARGETS = ["Base/Corr.vo", "Base/Fl.vo", "C01/Model.vo", "C02/Model.vo", "C11/Model.vo", "C03/Model.vo", "C03/ModelM.vo",
           "C10/Gen.vo", "C09/ModelS.vo", "C09/ModelB.vo", "C09/ModelV.vo", "C09/ModelM.vo", "C09/ModelMD.vo", "C09/ModelVR.vo", "C09/Spec.vo", "C09/Corr.vo",
           "C09/CorrB.vo", "C09/CorrM.vo", "C09/ModelI.vo", "C09/CorrI.vo", "C09/ModelVA.vo", "C09/CorrA.vo", "C09/ModelMA.vo", "C09/CorrMA.vo", "C09/ModelMW.vo", "C09/CorrMW.vo", "C09/SpecTest.vo",
           "C09/ProofsS.vo", "C09/ProofsB.vo", "C09/ProofsJ.vo", "C09/ProofsV.vo", "C09/ProofsM.vo", "C09/ProofsMD.vo", "C09/ProofsRefuted.vo",
           "C09/ProofsRefutedB.vo", "C09/ProofsVR.vo", "C09/ProofsI.vo", "C09/ProofsVA.vo", "C09/ProofsMA.vo", "C09/ProofsMW.vo", "C09/ProofsMW2.vo", "C09/Props.vo"]
PROPS = ["C09/Props.v"]
PARTIAL = (
    "Proved in Coq (coq/C09/Props.v), for ALL register files / worlds, all zero patterns, all alias patterns, about "
    "models in which BOTH members of a pair are written out separately as the Go text has them: (1) magic scalars "
    "Real64/Real32 (shared register-file model coq/C01/Model.v for the generic members, coq/C09/ModelS.v for the "
    "concrete twins incl. the four textual copies realMonadic/realMonadicLazy/realDyadic/realDyadicLazy): NEG ADD SUB MUL "
    "DIV POW SQRT EXP LOG LOG1P MIN MAX ABS SET LOGADD LOGSUB and the predicates EQUALS GREATER SMALLER SIGN return exactly "
    "the generic result — whole register file incl. Order, N, raw gradient and Hessian storage and panics; (2) bare scalars "
    "(Float64 Float32 Int Int8..Int64, carrier of coq/C02/Model.v): the concrete twins, ABS included, equal the generic "
    "methods on operands that hold a value of the receiver's type; SQRT only where math.Pow(x, 0.5) = math.Sqrt(x) "
    "(hypothesis; false at -0 and -Inf: refuted for the float carrier); bare LOGADD/LOGSUB (value model, temporary "
    "distinct from the operands) on carriers with idempotent float32 rounding; (3) sparse "
    "vectors (shared heap/AVL-key-set model coq/C11/Model.v, generic operations of coq/C03/Model.v, typed joint iterators "
    "JOINT_ITERATOR_/JOINT3_ITERATOR_ and the case-splitting loop bodies in coq/C09/ModelV.v): VADDV VSUBV VMULV VMULS SET "
    "leave exactly the world of the generic method (every value, the private map, the "
    "index keys, skip() side effects on operands, panics); VADDS VSUBS VDIVV and (since 5abb77d) VDIVS call the generic method "
    "(every divisor, 0 included; F-C09-VDIVS-ZERO retired, its witness proved to agree); EQUALS = true "
    "implies Equals = true with the same world, the converse is refuted with a witness; "
    "(4) dense vectors: all ten pairs; (3')/(4') Real64/Real32 ELEMENTS (coq/C09/ModelVR.v: a dense Real vector is a list "
    "of cells of C01's register file, shared ids = aliasing / overlap): VADDV VSUBV VMULV VDIVV VADDS VSUBS VMULS VDIVS "
    "SET EQUALS of dense Real vectors run the concrete scalar twins element by element and leave exactly the register file "
    "(values, Order, N, gradient, Hessian of every cell, element and dimension panics) of the generic members, for every "
    "carrier — scalar_pairs_interchangeable composed along the loop (vector_pairs_interchangeable_real); sparse Real "
    "vectors on visit schedules (the typed joint iterators deliver the schedule of the generic ones — proved over Z): visits "
    "whose operand entries are present give the same register file (VDIVS: every visit, it calls VdivS), visits of VADDV VSUBV "
    "VMULV VMULS SET with an ABSENT operand entry differ in Order/N "
    "of the receiver cell (F-C09-ABSENT-META, refuted with a witness; values and derivative values are compared on the "
    "implementation every run); (5) dense matrices (coq/C09/ModelM.v: nested i/j loops over AT = "
    "&values[index(i,j)] with the index kernel coq/C10/Gen.v regenerates from the Go source, on the shared matrix world "
    "coq/C03/ModelM.v whose step4 is the generic member): ALL pairs of the table — MADDM MSUBM MMULM MDIVM MADDS MSUBS MMULS "
    "MDIVS EQUALS OUTER and the products MDOTM MDOTV VDOTM — leave exactly the generic world and outcome on every world of "
    "well-formed (unsliced, untransposed) matrices, all alias patterns, dimension mismatches, integer division by zero, "
    "empty matrices (storageLocation panic), the r = b / r = a guard of MdotV / VdotM. MDOTM: the row-buffered and the "
    "column-buffered schedule chosen by r.storageLocation() == b.storageLocation() as coded equal C03's closed form for "
    "r = a, r = b, a = b and distinct operands (buffered line schedule invariant: flushed lines hold the result, every "
    "other cell its old value; the cells read for a line are never in a flushed line), and C03's column schedule mdot_cols "
    "for r = a = b (where both Go members compute the same wrong product F-MDOTM-RR). The generic MdotM / MdotV / VdotM are "
    "ALSO written out at loop level from the Go text (coq/C09/ModelMD.v: ConstAt / At / Float64At through the interfaces), "
    "replayed against Go's generic members every run, proved equal to the concrete twins step by step on every world and "
    "hence to C03's closed form under C03's hypothesis. Integer MdotV/VdotM: the generic member multiplies in float64 — "
    "refuted with the witness 94906267^2 on a model with explicit binary64 rounding and int64 wrap-around; "
    "(6) accessors and iterators (coq/C09/ModelI.v, both members separately, generic nil guards of Get written out): "
    "At/AT, Iterator/ITERATOR, IteratorFrom/ITERATOR_FROM with Get/GET per visit for dense and sparse vectors and matrices, "
    "JointIterator/JOINT_ITERATOR for sparse vector and sparse matrix receivers: same visit sequence, same cell, same world "
    "(skip() side effects), same panic on EVERY world (the generic members are wrappers of the concrete ones: the theorem is "
    "by unfolding and exists so that a diverging edit breaks it; the wrapper shape of every generic accessor / iterator body "
    "x receiver type is re-read from the source by go/ast each run and compared with the shape table the model assumes; both "
    "models are replayed against both Go members, visit sequences and the world afterwards); "
    "(7) the SCALAR operand of the vector-scalar and matrix-scalar pairs passed BY REFERENCE (coq/C09/ModelVA.v, ModelMA.v: a bare "
    "scalar is a struct around a pointer, r.VMULS(a, r.AT(k)) / v.VDIVS(v, v.AT(0)) / r.MADDS(a, r.AT(i, j)) hand the member a cell "
    "of the receiver that the loop overwrites; both members written out again with the scalar read in the CURRENT world on every "
    "iteration; references: a scalar of its own, x.At(i) of the receiver, of the other operand, of a third vector / matrix, of a "
    "dense vector; absent sparse entries created by At): dense vectors VADDS VSUBS VMULS VDIVS and sparse vectors VADDS VSUBS VMULS VDIVS "
    "leave exactly the generic world for every world and every reference (sparse VDIVS: full since 5abb77d made it call VdivS; the "
    "round-6 finding F-C09-VDIVS-SELFREF, divisor r[e] overwritten with 0 / b, is retired, its witness proved to agree and kept as "
    "a regression case); dense matrices MADDS MSUBS MMULS MDIVS (nested loops over "
    "AT vs the row-major generic loop) on every well-formed world and every reference; a scalar of "
    "its own gives back the by-value pairs of (3)-(5) (proved), a dense reference outside the receiver is as good as its value "
    "(frame, proved), and a twin that reads the scalar ONCE before the loop is refuted for dense vectors, sparse vectors and dense "
    "matrices. Replayed against both Go members every run (families A and MA, all nine element types; 1 case in 4-5 is one where a "
    "copy of the scalar would change the result); the direct generic-vs-concrete comparison carries element references in its "
    "random, exhaustive and directed streams (every scalar slot of a container method, dense and sparse, all element types, Real "
    "elements with derivatives included). Element carrier of (3)-(7) is Z "
    "(exact ring): what only floats can show (sign of zero, 0*Inf, order of accumulation) is outside these theorems and is "
    "decided per run by the direct generic-vs-concrete comparison on the implementation (directed family: products whose sum "
    "depends on the accumulation order, in-place products r = a, r = b, r = a = b, all nine element types). "
    "(8) (round 7) the element-wise dense matrix pairs on VIEWS (coq/C09/ModelMW.v: a world is the list of backing arrays, a "
    "matrix an arbitrary header over one of them, every access through the index kernel C10/Gen.v regenerates from the Go "
    "source, views built inside Coq by the regenerated Slice / T): MADDM MSUBM MMULM MDIVM MADDS MSUBS MMULS MDIVS equal the "
    "generic members on EVERY world and EVERY header (any offsets, transposition, overlapping views of one parent, headers "
    "reaching outside their array), change no cell outside the image of the receiver's index kernel (frame), and — receiver "
    "a view inside its parent, operands in other backing arrays — leave f(a(i,j), b(i,j)) in every cell of the receiver "
    "view (closed form; index kernel injective on views inside their parent). Both models replayed against both Go members "
    "every run (family MW: 600 cases, all nine element types, shared / overlapping parents, receiver = operand, transposed "
    "views, parents of one common shape at different offsets; every cell of every parent compared). The closed form for "
    "OVERLAPPING receiver / operand views is not stated (the generic = concrete theorem and the frame cover them); the "
    "products MDOTM MDOTV VDOTM, EQUALS and OUTER on views are not in this model: they are compared on the implementation "
    "(direct comparison: 1 random evaluation in 3 with a matrix operand uses SLICE views, half of them of parents of one "
    "common shape at different offsets, dense ones also transposed, parents dumped; directed family on 4 x 5 parents at "
    "offsets (0,0) (1,1) (2,2) for all pairs, all nine types; directed in-place Order-2 calls of every magic scalar pair). "
    "NOT modelled "
    "(compared on the implementation only, every run, all nine element types, bit-exact incl. derivatives): ROW COL DIAG "
    "SLICE (source shape checked), JOINT_ITERATOR of dense receivers, views of sparse matrices and the products on views; "
    "sparse Real absent-entry visits (above); a "
    "scalar reference into a DENSE vector handed to a SPARSE receiver, and references into Real-element containers other than what "
    "(4') covers (there the scalar is a register that may be a cell of the receiver: proved on the model, not replayed as a "
    "vector-level case). "
    "No pair exists for: arithmetic of sparse matrices (MaddM .. Outer have concrete twins on dense matrices only; sparse "
    "matrices pair only At Get Iterator IteratorFrom JointIterator Row Col Diag Slice), Map MapSet Reduce ConstAt "
    "ConstIterator ConstIteratorFrom ConstJointIterator (generic only; listed in the evidence as 'no pair'). The pair table is "
    "derived from the source (go/ast on the repository) and from reflection; pairs that are not exercised are listed "
    "in the evidence.")


def known_ids():
    ids = {}
    for f in vlib.known_findings("C09"):
        ids[f.get("match", {}).get("finding", f["id"])] = f
    p = os.path.join(vlib.ROOT, "corpus/C09/known_findings_proposed.json")
    if os.path.exists(p):
        try:
            for f in json.load(open(p)).get("findings", []):
                ids.setdefault(f.get("match", {}).get("finding", f["id"]), f)
        except ValueError:
            pass
    return ids


def judge_oracle(ctx, path, name, known):
    """Every difference between generic and concrete found on the implementation is either an instance of a
    listed finding (narrow predicate evaluated per evaluation by the harness) or a violation."""
    if not os.path.exists(path):
        ctx.violation({"obligation": "C09 %s run" % name}, False, "the %s run of the harness left no result" % name)
        return None
    o = json.load(open(path))
    unknown = 0
    hit = {}
    for d in o.get("diffs") or []:
        fid = d.get("finding") or ""
        if fid and fid in known:
            hit.setdefault(fid, d)
            continue
        unknown += 1
        ctx.violation({"case": d["case"], "site": d["site"], "where": d["where"], "generic": d["generic"][:1500],
                       "concrete": d["concrete"][:1500], "class": d["class"], "finding_id_unlisted": fid},
                      True, "generic %s and concrete %s differ on %s of %s (%s)" % (
                          d["case"]["g"], d["case"]["c"], d["where"], d["case"]["type"], d["site"]))
    for fid, d in sorted(hit.items()):
        if known[fid]["id"] not in [f for f, _ in ctx.known_hit]:
            ctx.known_finding(known[fid]["id"], known[fid]["what"][:260])
    ctx.oblige(1, 1 if unknown == 0 else 0)
    return o


def corr(ctx, binary, n):
    rc, out = vlib.run_harness(ctx, binary, n, extra=os.path.join(vlib.ROOT, "corpus/C09/witnesses.jsonl"),
                               args=("--repo", vlib.REPO))
    if rc != 0:
        ctx.violation({"obligation": "C09 harness run", "log": out[-3000:]}, False,
                      "harness failed on the implementation")
        return None, []
    bad = []
    nc = ns = 0
    for stem in ("cases", "bcases", "mcases", "icases", "acases", "macases", "mwcases"):
        meta = json.load(open(os.path.join(ctx.dir, stem + ".meta.json")))
        vlib.merge_meta(ctx, meta)
        if meta.get("no_pair"):
            ctx.cov.setdefault("extra", {})["generic_only_container_methods (no pair)"] = meta["no_pair"]
        shards = sorted(glob.glob(os.path.join(ctx.dir, stem + "_*.v")), key=lambda p: int(p.rsplit("_", 1)[1][:-2]))
        res = vlib.eval_shards(shards)
        ctx.oblige(len(res), sum(1 for r in res if r["ok"]))
        cases = vlib.load_jsonl(os.path.join(ctx.dir, stem + ".jsonl"))
        nc += len(cases)
        ns += len(res)
        for k, r in enumerate(res):
            if r["ok"]:
                continue
            if r["mism"] is None:
                ctx.violation({"obligation": "correspondence shard " + os.path.basename(r["path"]),
                               "coqc_error": r["error"]}, False, "correspondence shard did not evaluate")
                continue
            for i in r["mism"]:
                bad.append(cases[k * meta["per_shard"] + i])
    ctx.log("correspondence: %d cases in %d shards, %d mismatching" % (nc, ns, len(bad)))
    return meta, bad


def hunt(ctx, binary, cap):
    rc, out = vlib.sh([binary, "--extra", "hunt", "--n", str(cap), "--seed", str(ctx.seed), "--out", ctx.dir,
                       "--repo", vlib.REPO], timeout=1500, env=vlib.go_env())
    return os.path.join(ctx.dir, "hunt.json")


def run(ctx):
    ctx.cov["trusted_base"] = vlib.TRUSTED_BASE_COMMON + [
        "libm values inside the scalar replay are Go's own results (per-case oracle), as in C01",
        "axioms: see 'print_assumptions' (expected: closed under the global context)"]
    ctx.cov["partial"] = PARTIAL
    ok, failures = vlib.proof_stage(ctx, TARGETS, PROPS)
    thms = vlib.theorem_names(os.path.join(vlib.COQ, "C09/Props.v"))
    if ok:
        ctx.cov["print_assumptions"] = vlib.print_assumptions("C09", [("C09.Props", thms)], ctx.dir)
    binary, blog = vlib.build_harness("c09")
    if binary is None:
        ctx.violation({"obligation": "build of harness/c09 against the repository", "log": blog[-3000:]}, False,
                      "tie lost: the C09 harness no longer builds against the repository")
        return
    known = known_ids()
    n = 60 if ctx.tier == "quick" else 600
    meta, bad = corr(ctx, binary, n)
    before0 = len(ctx.violations)
    o = judge_oracle(ctx, os.path.join(ctx.dir, "oracle.json"), "pair evaluation", known)
    found0 = len(ctx.violations) > before0
    if o:
        ctx.cov["evaluations"] = ctx.cov.get("evaluations", 0) + int(o.get("evaluations", 0))
        ctx.cov.setdefault("extra", {})["pairs"] = {
            "source_pairs (go/ast)": ["%s/%s x%d" % (p["g"], p["c"], len(p["types"])) for p in o.get("source_pairs") or []],
            "pairs_in_source_not_called_directly": o.get("pairs_in_source_not_exercised"),
            "pairs_not_constructible": o.get("skipped_pairs"),
            "upper_case_methods_without_generic_twin": len(o.get("uppercase_without_generic_twin") or []),
            "plans (type x kind x pair)": o.get("plans"),
            "both_members_panicked": o.get("both_panicked"),
            "pairs_never_evaluated_without_panic": sorted(k for k, v in (o.get("per_pair") or {}).items()
                                                          if not (o.get("per_pair_nonpanic") or {}).get(k)),
            "known_difference_instances": o.get("diff_count"),
            "evaluations_with_SLICE_views_among_the_operands": o.get("view_evaluations"),
            "of_which_not_both_members_panicked": o.get("view_evaluations_nonpanic"),
            "directed_evaluations": o.get("directed_evaluations"),
            "corpus_witnesses": o.get("corpus_witnesses"),
            "regression_witnesses_of_fixed_findings_that_agree": o.get("regression_witnesses_agree"),
            "corpus_witnesses_that_agree_now (a listed finding may have been fixed)": o.get("corpus_witnesses_that_agree_now"),
        }
        # the pair table derived from the source, against the committed one: added / removed pairs show here
        ep = os.path.join(vlib.ROOT, "corpus/C09/pairs.json")
        now = sorted("%s/%s:%s" % (p["g"], p["c"], t) for p in o.get("source_pairs") or [] for t in p["types"])
        if os.path.exists(ep):
            old = json.load(open(ep))
            added = sorted(set(now) - set(old))
            removed = sorted(set(old) - set(now))
            ctx.cov["extra"]["pairs"]["pair_table_delta_vs_committed"] = {"added": added, "removed": removed}
            if added or removed:
                ctx.notes.append("pair table changed: +%d -%d (see coverage.extra.pairs.pair_table_delta_vs_committed); "
                                 "added pairs are evaluated on the implementation when their operands can be "
                                 "constructed, they are not in the Coq models" % (len(added), len(removed)))
                ctx.log("pair table changed: added %s removed %s" % (added[:6], removed[:6]))
    broke = bad or not ok
    if True:
        # exhaustive small operands per pair (zero patterns, Orders 0..2, N <= 2, alias patterns): always run with a
        # cap, with a larger one once a proof or the correspondence broke
        cap = (250 if not broke else 1500) if ctx.tier == "quick" else 4000
        hp = hunt(ctx, binary, cap)
        before = len(ctx.violations)
        h = judge_oracle(ctx, hp, "hunt (exhaustive small operands)", known)
        found = found0 or len(ctx.violations) > before
        if h:
            ctx.cov["evaluations"] = ctx.cov.get("evaluations", 0) + int(h.get("evaluations", 0))
        if broke and not found:
            for f in failures:
                ctx.violation({"obligation": f["target"], "lemma": f["lemma"], "errors": f["errors"]}, False,
                              "proof obligation no longer checks: %s %s" % (f["target"], f["lemma"] or ""))
            if bad:
                ctx.violation({"model_case": bad[0], "obligation": "correspondence C09.Corr.check (models vs implementation)"},
                              False, "a model (generic or concrete member) and the implementation disagree; on the "
                                     "implementation no difference between generic and concrete beyond the listed "
                                     "findings was found")


def replay(ctx, path):
    rp = json.load(open(path))
    binary, blog = vlib.build_harness("c09")
    if binary is None:
        print(blog)
        return 2
    if "case" not in rp:
        print("replay names a broken obligation, not an input: %s" % rp.get("obligation"))
        ok, failures = vlib.proof_stage(ctx, TARGETS, PROPS)
        if not ok:
            return 1
        known = known_ids()
        meta, bad = corr(ctx, binary, 60)
        return 1 if bad else 0
    rc, out = vlib.sh([binary, "--replay", path, "--out", ctx.dir, "--repo", vlib.REPO], env=vlib.go_env())
    print(out.strip())
    return 1 if rc != 0 else 0
