"""C02 — every scalar type computes the mathematical function its method names."""
import glob, json, os, re
import vlib

TARGETS = ["Base/Num.vo", "Base/Corr.vo", "C02/Model.vo", "C02/Spec.vo", "C02/Corr.vo",
           "C02/ProofsInt.vo", "C02/ProofsReal.vo", "C02/ProofsRed.vo", "C02/ProofsConv.vo",
           "C02/Ext.vo", "C02/ProofsExt.vo", "C02/CorrExt.vo", "C02/Props.vo",
           "C02/ModelVec.vo", "C02/ProofsVec.vo", "C02/PropsVec.vo",
           "C02/ModelSt.vo", "C02/ProofsSt.vo", "C02/ProofsStNamed.vo", "C02/CorrSt.vo", "C02/PropsSt.vo",
           "C02/ProofsPow.vo", "C02/CorrPow.vo", "C02/PropsPow.vo",
           "C02/Bodies.vo", "C02/Values.vo", "C02/ProofsBodies.vo", "C02/PropsBodies.vo",
           "C02/ProofsR7.vo", "C02/PropsR7.vo"]
PROPS = ["C02/Props.v", "C02/PropsVec.v", "C02/PropsSt.v", "C02/PropsPow.v", "C02/PropsBodies.v", "C02/PropsR7.v"]
CORPUS = os.path.join(vlib.ROOT, "corpus/C02/corpus.jsonl")
PROPOSED = os.path.join(vlib.ROOT, "corpus/C02/known_findings_proposed.json")

PARTIAL = (
    "Proved in Coq for ALL arguments, about the hand-written op table coq/C02/Model.v (one text over a carrier record): "
    "(1) integer types (every carrier): add/sub/mul = wrap_k of the exact result, division = wrap_k of Z.quot (shown to truncate toward zero), "
    "MinInt/-1 wraps, division by zero panics, Neg/Abs/concrete ABS/Min/Max/Greater/Smaller/Sign agree with the order of the operands as read through the "
    "receiver type's getter; integer Equals is the epsilon test on the float64 readings (exact equality refuted: known finding F-EQUALS-INT); "
    "(2) the four float types on the real carrier XR (reals + -oo, storage rounding = identity), universally over the "
    "opaque special functions: every elementary method equals its named real function (Erfc = 1 - erf, erf the integral), arithmetic, Abs = concrete ABS = |x| "
    "(for every previous value of the receiver), Sigmoid = Logistic = 1/(1+e^-x) on both sign branches, LogAdd = ln(e^a+e^b) with -oo neutral, LogSub = ln(e^a-e^b), Log1pExp within "
    "l1pe_err(x) <= 2^-48 of ln(1+e^x) on every branch (exact on (-37,18]; middle branch a + e^-a through a temporary), SmoothMax = sum x e^(ax)/sum e^(ax) for every real vector, LogSmoothMax equal to it for positive "
    "vectors, Vmean, VdotV, Vnorm = sqrt(sum x^2), Mtrace, Mnorm = sum of squares (and refuted as Frobenius norm); (2b) on the EXTENDED carrier ER = R + {+oo,-oo,NaN} "
    "(coq/C02/Ext.v: IEEE arithmetic on the infinities/NaN, elementary functions with the C99/Go value at +-Inf, NaN and the domain edges): the special-value table of "
    "Exp/Log/Log1p/Sin/Cos/Tan/Sinh/Cosh/Tanh/Erf/Erfc/Gamma/Sqrt as theorems on every float type, LogAdd = ln(e^a+e^b) and LogSub = ln(e^a-e^b) for ALL pairs of ER "
    "(a<b gives NaN, a=b gives -oo, all Inf/NaN combinations), Log1pExp (+oo, 0, NaN at +oo, -oo, NaN), Sigmoid/Logistic (1, 0, NaN), SmoothMax of the empty vector = NaN, "
    "LogSmoothMax = SmoothMax for every vector of NON-NEGATIVE elements (zeros included, all-zero vector gives 0) and NaN as soon as one element is negative; "
    "(2c) OPERAND REPRESENTATIONS (coq/C02/ModelVec.v, PropsVec.v): for the seven methods taking a vector or matrix (SmoothMax, LogSmoothMax, Vmean, VdotV, Vnorm, Mtrace, Mnorm) the operand is a "
    "representation term - dense, sparse (stored entries incl. explicit zeros, implicit zeros elsewhere), Slice of a vector, Row/Col/Diag of a matrix, T() and Slice of a dense or sparse matrix, nested - "
    "with its abstract element sequence velems / mat_at (every position of a sparse operand is an element: the stored scalar or the container's zero); the model reads it as the Go method does "
    "(index loop over Dim()/ConstAt, or for Vnorm the iterator, which skips the zeros of a sparse operand) and the result is proved to be the named function of ALL elements for EVERY representation: "
    "SmoothMax (XR, and ER), LogSmoothMax = SmoothMax for positive (XR) and for non-negative operands (ER: each implicit zero adds e^0 = 1 to the denominator and nothing to the numerator), Vmean, VdotV of two "
    "differently represented operands, Vnorm = sqrt(sum of squares of all elements) although the iterator skips zeros, Mtrace = sum of mat_at a i i, Mnorm = sum of squares of all elements; "
    "(2d) STATE (round 6; coq/C02/ModelSt.v, PropsSt.v): LogAdd/LogSub/Sigmoid (t Scalar), SmoothMax (t [2]Scalar), LogSmoothMax (t [3]Scalar) and the reductions Vmean/VdotV/Vnorm/Mtrace/Mnorm "
    "as TRANSITIONS of the state (receiver, t[0], t[1], t[2]) with ARBITRARY content on entry (every scratch scalar read where the code reads it and written where it writes it; r.Reset(), t[1].Reset(), "
    "t[2].SetFloat64(-Inf) explicit steps; the state after the call is what the code leaves behind): for every carrier, every receiver and scratch type, the value left in the receiver is the operand-only function "
    "of Model.v whatever the receiver and the scratch held; lifted by induction to HISTORIES of calls on one receiver and one scratch bank (also calls whose operand is the receiver itself, c.LogAdd(c,b,t)); "
    "frame (a call writes the receiver and the scratch it was handed, nothing else); the named-function theorems restated from every dirty state (XR and ER). "
    "(2e) BODIES FROM SOURCE (round 6; go2coq_c02 -> runs/C02/gen_bodies.v): the Go bodies of LogAdd LogSub Log1pExp Sigmoid Logistic SmoothMax LogSmoothMax Vmean (9 receiver types) and LOGADD LOGSUB are regenerated on every run as "
    "programs of a small statement language (coq/C02/Bodies.v) and must equal the expected program by reflexivity (90 bodies); the interpreter run on the expected programs is proved equal to the state-passing model. "
    "Likewise the float64 VALUE EXPRESSION of every return path of Pow Sqrt POW SQRT and of the 13 math.* methods (+ EXP LOG LOG1P) of all 9 receiver types (180 tables; for the Real types both branches of Pow/POW: "
    "exponent with and without derivatives) is regenerated and proved to store the op table's value. "
    "(2f) POW (round 6; Ext.epow, PropsPow.v): on ER every float type computes x^y with the WHOLE special-case table of C99/Go (x^0 = 1 incl. NaN^0, 1^y = 1 incl. 1^NaN and 1^Inf, negative base: integer exponent gives the "
    "integer power with its sign, non-integer gives NaN, 0^y, x^(+-Inf), (+-Inf)^y with the odd-integer rule); the table is tied to EVERY recorded math.Pow call of the run by CorrPow.pow_special_ok (cert_pow.v). "
    "(2g) INTEGER RECEIVERS MEETING FLOAT OPERANDS (round 7; coq/C02/PropsR7.v, carrier ER): Pow/POW of every receiver with an integer base is the truncation toward zero of "
    "Ext.epow of the operands' float64 readings (whole special-case table; an out-of-range or non-finite power is the excluded conversion), hence 0 for |x| >= 2 and every negative integral exponent, 1 for base 1 and EVERY exponent, "
    "trunc(x^n) of the UNtruncated base for a positive non-integral base held in a float operand (2.5^2 = 6, 0.5^-2 = 4); LogAdd/LogSub of an integer receiver with -oo held in a float operand return the other operand as the "
    "receiver reads it (wrap_k of an integer operand, truncation of a float operand; the infinity is never converted), LogSub(a, -oo) = Set(a) for every receiver and operand; the value of LogAdd/LogSub at every pair of infinities "
    "and at (+oo, finite) on the float receivers spelled out. "
    "(3) Real64 value path = Float64 value path for every op (every carrier; the concrete SQRT excluded, its two bodies differ); (4) ConvertScalar/ConvertConstScalar yield the "
    "requested registered type holding the getter-converted value; refutations for the known findings. NOT proved: the step from exact reals to "
    "binary64/binary32 rounding (covered per sampled case: bit-exact replay on Coq primitive floats with float32 rounding via "
    "SpecFloat.binary_normalize 24 128, innocuous double rounding of + - * / assumed for Float32), the accuracy of Go's math.* (certified per "
    "recorded call by Coq-Interval goals, capped per run; the special-value table is checked against every recorded call with a non-finite argument or result) and of math.Gamma/Lgamma and /repo/special (opaque; only same-routing across types is "
    "checked; special.LogErfc is additionally certified per recorded call against ln(1 - erf x), erf the integral, by Coq-Interval on the whole negative side and up to x = 3: a wrong branch "
    "selection there fails the certificate), float->int conversions of NaN/out-of-range values (implementation-defined in Go: excluded and counted), signed zeros and overflow/underflow on the extended carrier "
    "(R has one zero: (-0)^odd-negative = -Inf is checked on the recorded binary64 calls only), derivative slots (C01). The state-passing model has no derivative arrays: that "
    "dirty Real scratch carrying derivatives of an earlier call does not change the value is covered per sampled history only; go2coq_c02 covers the methods listed in (2e), the other bodies (Vnorm, VdotV, Mtrace, Mnorm, "
    "Abs, Min, Max, comparisons, conversions, the integer ring operations) are hand-transcribed; the statement-language interpreter treats LogAdd inside LogSmoothMax as the primitive logadd_st (itself tied by its own regenerated body).")


def known():
    fs = list(vlib.known_findings("C02"))
    ids = {f.get("id") for f in fs}
    if os.path.exists(PROPOSED):
        for f in json.load(open(PROPOSED)).get("findings", []):
            if f.get("id") not in ids:
                fs.append(f)
    return fs


def is_known(failure):
    for f in known():
        if f.get("match", {}).get("site") == failure.get("site"):
            return f
    return None


def eval_with_excluded(paths):
    """vlib.eval_shards plus the counter E (cases whose model result is the excluded, implementation-defined
    float->int conversion) that every case shard prints after M.
    Robust on a loaded machine: at most 8 coqc processes at a time (the Coq-Interval certificates need ~1 GB each); a
    process that ends without a Coq error message was killed (deadline / out of memory) and is evaluated again, one at a
    time, up to three more times; a file that reports a Coq error is evaluated once more (a genuine failure is
    deterministic and fails again)."""
    import concurrent.futures as cf, time

    def attempt(p, timeout):
        t0 = time.time()
        rc, out = vlib.coqc_file(p, timeout=timeout)
        r = {"path": p, "secs": round(time.time() - t0, 2), "ok": False, "mism": None, "error": None, "excl": 0,
             "killed": rc != 0 and "Error" not in out}
        m = re.search(r"M\s*=\s*(\[[^\]]*\])", out, flags=re.S)
        e = re.search(r"E\s*=\s*(\d+)", out)
        if e:
            r["excl"] = int(e.group(1))
        if rc == 0 and m:
            body = m.group(1).strip()[1:-1].strip()
            r["mism"] = [int(x) for x in re.findall(r"\d+", body)] if body else []
            r["ok"] = (r["mism"] == [])
        else:
            r["error"] = out[-3000:] or "coqc ended without output (killed)"
        for ext in (".vo", ".vok", ".vos", ".glob"):
            q = p[:-2] + ext
            if os.path.exists(q):
                os.remove(q)
        aux = os.path.join(os.path.dirname(p), "." + os.path.basename(p)[:-2] + ".aux")
        if os.path.exists(aux):
            os.remove(aux)
        return r

    with cf.ThreadPoolExecutor(max_workers=min(vlib.NCPU, 8)) as ex:
        res = list(ex.map(lambda p: attempt(p, 900), paths))
    for k, r in enumerate(res):
        if r["mism"] is not None:
            continue
        tries = 3 if r["killed"] else 1
        for n in range(tries):
            if r["killed"]:
                time.sleep(10 * (n + 1))
            r2 = attempt(r["path"], 1800)
            r2["secs"] += r["secs"]
            r = r2
            if r["mism"] is not None or not r["killed"]:
                break
        res[k] = r
    return res


def translate(ctx):
    """round 6: regenerate the bodies of the scratch-taking methods from vlib.REPO (go2coq_c02) and let Coq check, by
    reflexivity, that each is the expected program of coq/C02/Bodies.v.  Returns a list of failures (proof-stage format)."""
    tool, tlog = vlib.build_tool("go2coq_c02", "go2coq_c02")
    if tool is None:
        ctx.oblige(1, 0)
        return [{"target": "go2coq_c02 build", "lemma": None, "errors": [tlog[-1500:]]}]
    gen = os.path.join(ctx.dir, "gen_bodies.v")
    rep = os.path.join(ctx.dir, "gen_bodies.json")
    rc, out = vlib.sh([tool, "-repo", vlib.REPO, "-out", gen, "-report", rep], timeout=120, env=vlib.go_env())
    if rc != 0 or not os.path.exists(gen) or not os.path.exists(rep):
        ctx.oblige(1, 0)
        return [{"target": "go2coq_c02 run", "lemma": None, "errors": [out[-1500:]]}]
    report = json.load(open(rep))
    ctx.cov["translator"] = report
    failures = []
    if not report.get("ok"):
        failures.append({"target": "go2coq_c02: a method body of the library is outside the translated grammar or missing "
                                   "(the source of a scratch-taking scalar method changed shape)", "lemma": None,
                         "errors": report.get("errors", [])[:6]})
    r = eval_with_excluded([gen])[0]
    if not r["ok"]:
        m = re.search(r'line (\d+)', r["error"] or "")
        goal = ""
        if m:
            try:
                goal = open(gen).read().split("\n")[int(m.group(1)) - 1][:300]
            except (OSError, IndexError):
                pass
        failures.append({"target": "runs/C02/gen_bodies.v: a body regenerated from the Go source is not the expected program "
                                   "of coq/C02/Bodies.v (the model's statement sequence no longer is the code's)",
                         "lemma": goal, "errors": [(r["error"] or "")[-800:]]})
    ctx.oblige(2, 2 - min(2, len(failures)))
    ctx.log("translator: %s bodies and %s value-path tables regenerated from %s, %s" % (report.get("bodies_translated"), report.get("value_path_tables"), vlib.REPO,
                                                               "all equal to the expected programs" if not failures else "TIE BROKEN"))
    return failures


def corr(ctx, binary, n):
    rc, out = vlib.run_harness(ctx, binary, n, extra=CORPUS)
    if rc != 0:
        ctx.violation({"obligation": "C02 harness run", "log": out[-3000:]}, False,
                      "harness failed on the implementation")
        return [], True
    meta = json.load(open(os.path.join(ctx.dir, "cases.meta.json")))
    vlib.merge_meta(ctx, meta)
    shards = sorted(glob.glob(os.path.join(ctx.dir, "cases_*.v")),
                    key=lambda p: int(re.findall(r"_(\d+)\.v$", p)[0]))
    certs = sorted(glob.glob(os.path.join(ctx.dir, "cert_*.v")))
    # round 6: histories on one receiver and one dirty scratch bank (coq/C02/CorrSt.v), own shard files
    seqs = sorted(glob.glob(os.path.join(ctx.dir, "seq_*.v")),
                  key=lambda p: int(re.findall(r"_(\d+)\.v$", p)[0]))
    smeta = {"per_shard": 40}
    if os.path.exists(os.path.join(ctx.dir, "seq.meta.json")):
        smeta = json.load(open(os.path.join(ctx.dir, "seq.meta.json")))
        vlib.merge_meta(ctx, smeta)
    res = eval_with_excluded(shards + seqs + certs)
    rs, rq, rc_ = res[:len(shards)], res[len(shards):len(shards) + len(seqs)], res[len(shards) + len(seqs):]
    ctx.oblige(len(res), sum(1 for r in res if r["ok"]))
    cases = vlib.load_jsonl(os.path.join(ctx.dir, "cases.jsonl"))
    scases = vlib.load_jsonl(os.path.join(ctx.dir, "seq.jsonl")) if seqs else []
    bad, broken = [], False
    for group, per, pool in ((rs, meta["per_shard"], cases), (rq, smeta["per_shard"], scases)):
        for k, r in enumerate(group):
            if r["ok"]:
                continue
            broken = True
            if r["mism"] is None:
                ctx.violation({"obligation": "correspondence shard " + os.path.basename(r["path"]), "coqc_error": r["error"]},
                              False, "correspondence shard did not evaluate")
                continue
            for i in r["mism"]:
                bad.append(pool[k * per + i])
    cert_bad = [r for r in rc_ if not r["ok"]]
    for r in cert_bad:
        m = re.search(r'line (\d+)', r["error"] or "")
        goal = ""
        if m:
            try:
                lines = open(r["path"]).read().split("\n")
                goal = lines[max(0, int(m.group(1)) - 2)][:400]
            except OSError:
                pass
        if r["mism"]:
            ctx.violation({"obligation": "table " + os.path.basename(r["path"]), "entries": r["mism"][:20]}, False,
                          "recorded math.* calls disagree with the special-value table of coq/C02 (%s, entries %s)" % (
                              os.path.basename(r["path"]), r["mism"][:8]))
            continue
        ctx.violation({"obligation": "certificate " + os.path.basename(r["path"]), "goal": goal, "coqc_error": (r["error"] or "")[-1500:]},
                      False, "a recorded math.* result is not within tolerance of the named real function (Coq-Interval certificate failed)")
    ctx.cov.setdefault("extra", {})["certificate_files"] = len(certs)
    ctx.cov["extra"]["excluded_implementation_defined_conversions"] = sum(r["excl"] for r in rs)
    ctx.cov["extra"]["histories_ended_by_an_excluded_conversion"] = sum(r["excl"] for r in rq)
    ctx.log("correspondence: %d cases in %d shards + %d histories in %d shards, %d mismatching; %d certificate files, %d failing (%.1fs max shard)" % (
        len(cases), len(shards), len(scases), len(seqs), len(bad), len(certs), len(cert_bad), max([r["secs"] for r in res] or [0])))
    return bad, broken


def hunt(ctx, binary, bad):
    rp = os.path.join(ctx.dir, "hunt_in.json")
    json.dump({"cases": bad[:200]}, open(rp, "w"))
    n = 12 if ctx.tier == "quick" else 150
    rc, out = vlib.sh([binary, "--extra", "hunt:" + CORPUS, "--replay", rp, "--n", str(n), "--seed", str(ctx.seed),
                       "--out", ctx.dir], timeout=900, env=vlib.go_env())
    hp = os.path.join(ctx.dir, "hunt.json")
    if rc == 0 and os.path.exists(hp):
        return json.load(open(hp))
    ctx.log("hunt did not complete: " + out[-500:])
    return None


def run(ctx):
    ctx.cov["trusted_base"] = vlib.TRUSTED_BASE_COMMON + [
        "float32 rounding modelled by SpecFloat.binary_normalize 24 128; Float32 + - * / as round32 of the binary64 operation (double rounding innocuous since 53 >= 2*24+2)",
        "math.* / special.* calls answered from a per-case oracle table recorded by the harness (Go's own results for the same argument bits); math.Exp/Log/Log1p/Sin/Cos/Tan/Sinh/Cosh/Tanh/Erf/Erfc/Pow entries certified against the real functions by Coq-Interval (interval/integral tactics), capped per run; Gamma/Lgamma/special.* opaque",
        "the extended carrier ER (coq/C02/Ext.v) is a specification-side instance of the same op table; its special-value table fn_special / fn_edge is tied to Go's math package by CorrExt.special_ok over every recorded call with a non-finite argument or result (runs/C02/cert_special.v); its IEEE arithmetic on the infinities is hand-written (one zero, no overflow)",
        "go2coq_c02 (~550 lines of Go, go/parser + go/ast only): trusted for the shape of the translation of the method bodies listed in PARTIAL (2e) into coq/C02/Bodies.v / Values.v syntax; a construct outside its grammar is reported and fails the check",
        "CorrPow.fpow_expect (the special-case table of x^y on binary64 operands) and Ext.epow (the same table on ER) are two hand-written renderings of one table; only the former is compared with Go's math.Pow",
        "Coquelicot/Reals axioms as printed under 'print_assumptions'",
    ]
    ctx.cov["partial"] = PARTIAL
    ok, failures = vlib.proof_stage(ctx, TARGETS, PROPS)
    if ok:
        tf = translate(ctx)
        if tf:
            ok = False
            failures = failures + tf
    if ok:
        thms = vlib.theorem_names(os.path.join(vlib.COQ, "C02/Props.v"))
        if ctx.tier == "quick":
            # Print Assumptions walks the whole Reals/Coquelicot closure (~2 s per theorem): one representative per group in quick
            keep = ["C02_int_div", "C02_int_min", "C02_elementary", "C02_log1pexp", "C02_log1pexp_error_bound", "C02_logadd",
                    "C02_logsmoothmax_agrees_with_smoothmax", "C02_vnorm", "C02_real64_value_path_binary", "C02_convert_scalar",
                    "C02_concrete_ABS", "C02_ext_logsub", "C02_ext_logsmoothmax_nonnegative"]
            thms = [t for t in thms if t in keep]
        vthms = [t for t in vlib.theorem_names(os.path.join(vlib.COQ, "C02/PropsVec.v")) if t.startswith("C02_vec") or t.startswith("C02_mat")]
        if ctx.tier == "quick":
            vthms = [t for t in vthms if t in ("C02_vec_vnorm", "C02_vec_ext_logsmoothmax_nonnegative", "C02_mat_mtrace")]
        sthms = vlib.theorem_names(os.path.join(vlib.COQ, "C02/PropsSt.v"))
        pthms = vlib.theorem_names(os.path.join(vlib.COQ, "C02/PropsPow.v"))
        if ctx.tier == "quick":
            sthms = [t for t in sthms if t in ("C02_st_history", "C02_st_frame", "C02_st_ext_logsmoothmax")]
            pthms = [t for t in pthms if t in ("C02_pow_ext", "C02_pow_negative_base_integer_exponent", "C02_pow_tracking_irrelevant")]
        ctx.cov["print_assumptions"] = vlib.print_assumptions("C02", [("C02.Props", thms), ("C02.PropsVec", vthms),
                                                                      ("C02.PropsSt", sthms), ("C02.PropsPow", pthms),
                                                                      ("C02.PropsBodies", ["C02_body_logsmoothmax", "C02_body_smoothmax"]),
                                                                      ("C02.PropsR7", ["C02_int_pow_negative_exponent", "C02_int_pow_float_base_not_truncated",
                                                                                       "C02_int_log_scale_neutral_float", "C02_ext_log_scale_infinite_pairs"])], ctx.dir)
    # optional stretch target: agreement with the value table of the C01 model (another builder's file; never the decision)
    if os.path.exists(os.path.join(vlib.COQ, "C01/Model.v")):
        ok2, _ = vlib.coq_make(["C02/AgreeC01.vo"])
        ctx.notes.append("optional C02/AgreeC01.vo (C02 op table = C01 value table m_v0/d_v0): %s" % (
            "built" if ok2.get("C02/AgreeC01.vo") else "NOT built (C01 model changed or missing); not part of the decision"))
    binary, blog = vlib.build_harness("c02")
    if binary is None:
        ctx.violation({"obligation": "build of harness/c02 against the library", "log": blog[-3000:]}, False,
                      "tie lost: the C02 harness no longer builds against the library")
        return
    n = 3 if ctx.tier == "quick" else 30
    bad, broken = corr(ctx, binary, n)
    h = hunt(ctx, binary, bad)
    unknown = []
    if h:
        ctx.cov.setdefault("extra", {})["hunt_cases_checked"] = h.get("checked")
        for f in h.get("failures") or []:
            kf = is_known(f)
            if kf:
                ctx.known_finding(kf["id"], "%s [witness: %s on %s -> %s]" % (kf["what"], f["case"]["op"], _recv(f["case"]), f.get("got")))
            else:
                unknown.append(f)
    for f in unknown:
        ctx.violation({"case": f["case"], "site": f["site"], "failure": f["failure"], "got": f["got"], "want": f["want"],
                       "broken": [x["target"] for x in failures] + (["correspondence C02.Corr.check"] if bad else [])},
                      True, "scalar method does not compute its named function: %s (%s): got %s, want %s" % (
                          f["site"], f["failure"], f["got"], f["want"]))
    if (bad or not ok) and not unknown:
        for f in failures:
            ctx.violation({"obligation": f["target"], "lemma": f["lemma"], "errors": f["errors"]}, False,
                          "proof obligation no longer checks: %s %s" % (f["target"], f["lemma"] or ""))
        if bad:
            ctx.violation({"case": bad[0], "n_mismatching": len(bad), "obligation": "correspondence C02.Corr.check (model vs implementation)"},
                          False, "model and implementation disagree on %d case(s) (first: %s on %s), but the property-level oracle found no failing input" % (
                              len(bad), bad[0].get("op"), _recv(bad[0])))


def _recv(c):
    names = ["Float64", "Float32", "Real64", "Real32", "Int8", "Int16", "Int32", "Int64", "Int", "ConstFloat64", "ConstFloat32",
             "ConstInt8", "ConstInt16", "ConstInt32", "ConstInt64", "ConstInt"]
    t = c.get("tc", 0)
    if c.get("op") in ("NewScalar", "NewConstScalar", "NullScalar"):
        t = c.get("tgt", 0)
    return names[t] if 0 <= t < len(names) else "?"


def replay(ctx, path):
    rp = json.load(open(path))
    binary, blog = vlib.build_harness("c02")
    if binary is None:
        print(blog)
        return 2
    if "case" not in rp:
        print("replay names a broken obligation, not an input: %s" % rp.get("obligation"))
        ok, failures = vlib.proof_stage(ctx, TARGETS, PROPS)
        return 0 if ok else 1
    vlib.coq_make(TARGETS)
    rc, out = vlib.sh([binary, "--replay", path, "--out", ctx.dir], env=vlib.go_env())
    print(out.strip())
    res = vlib.eval_shards(sorted(glob.glob(os.path.join(ctx.dir, "replay_*.v"))))
    agree = bool(res) and all(r["ok"] for r in res)
    hin = os.path.join(ctx.dir, "hunt_in.json")
    json.dump({"cases": [rp["case"]]}, open(hin, "w"))
    vlib.sh([binary, "--extra", "hunt", "--replay", hin, "--n", "0", "--out", ctx.dir], env=vlib.go_env())
    h = json.load(open(os.path.join(ctx.dir, "hunt.json")))
    fs = [f for f in (h.get("failures") or []) if not is_known(f)]
    kn = [f for f in (h.get("failures") or []) if is_known(f)]
    print("model/implementation agree on the replayed case: %s" % agree)
    for f in kn:
        print("KNOWN-FINDING: property=C02 %s" % is_known(f)["id"])
    print("property oracle on the implementation: %s" % ("; ".join(f["site"] + ": " + f["failure"] for f in fs) if fs else "holds"))
    return 1 if (fs or not agree) else 0
