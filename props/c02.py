"""C02 — every scalar type computes the mathematical function its method names."""
import glob, json, os, re
import vlib

TARGETS = ["Base/Num.vo", "Base/Corr.vo", "C02/Model.vo", "C02/Spec.vo", "C02/Corr.vo",
           "C02/ProofsInt.vo", "C02/ProofsReal.vo", "C02/ProofsRed.vo", "C02/ProofsConv.vo",
           "C02/Ext.vo", "C02/ProofsExt.vo", "C02/CorrExt.vo", "C02/Props.vo",
           "C02/ModelVec.vo", "C02/ProofsVec.vo", "C02/PropsVec.vo"]
PROPS = ["C02/Props.v", "C02/PropsVec.v"]
CORPUS = os.path.join(vlib.ROOT, "corpus/C02/corpus.jsonl")
PROPOSED = os.path.join(vlib.ROOT, "corpus/C02/known_findings_proposed.json")

PARTIAL = (
    "Proved in Coq for ALL arguments, about the hand-written op table coq/C02/Model.v (one text over a carrier record): "
    "(1) integer types (every carrier): add/sub/mul = wrap_k of the exact result, division = wrap_k of Z.quot (shown to truncate toward zero), "
    "MinInt/-1 wraps, division by zero panics, Neg/Abs/concrete ABS/Min/Max/Greater/Smaller/Sign agree with the order of the operands as read through the "
    "receiver type's getter; integer Equals is the epsilon test on the float64 readings (exact equality refuted: known finding F-EQUALS-INT); "
    "(2) the four float types on the real carrier XR (reals + -oo, storage rounding = identity), universally over the "
    "opaque special functions: every elementary method equals its named real function (Erfc = 1 - erf, erf the integral), arithmetic, Abs = concrete ABS = |x| "
    "(for every previous value of the receiver), Sigmoid = Logistic = 1/(1+e^-x) on both sign branches, LogAdd = ln(e^a+e^b) with -oo neutral, LogSub = ln(e^a-e^b), Log1pExp within "
    "l1pe_err(x) <= 2^-48 of ln(1+e^x) on every branch (exact on (-37,18]; middle branch a + e^-a through a temporary), SmoothMax = sum x e^(ax)/sum e^(ax) for every real vector, LogSmoothMax equal to it for positive "
    "vectors, Vmean, VdotV, Vnorm = sqrt(sum x^2), Mtrace, Mnorm = sum of squares (and refuted as Frobenius norm); (2b) on the EXTENDED carrier ER = R + {+oo,-oo,NaN} "
    "(coq/C02/Ext.v: IEEE arithmetic on the infinities/NaN, elementary functions with the C99/Go value at +-Inf, NaN and the domain edges): the special-value table of "
    "Exp/Log/Log1p/Sin/Cos/Tan/Sinh/Cosh/Tanh/Erf/Erfc/Gamma/Sqrt as theorems on every float type, LogAdd = ln(e^a+e^b) and LogSub = ln(e^a-e^b) for ALL pairs of ER "
    "(a<b gives NaN, a=b gives -oo, all Inf/NaN combinations), Log1pExp (+oo, 0, NaN at +oo, -oo, NaN), Sigmoid/Logistic (1, 0, NaN), SmoothMax of the empty vector = NaN, "
    "LogSmoothMax = SmoothMax for every vector of NON-NEGATIVE elements (zeros included, all-zero vector gives 0) and NaN as soon as one element is negative; "
    "(2c) OPERAND REPRESENTATIONS (coq/C02/ModelVec.v, PropsVec.v): for the seven methods taking a vector or matrix (SmoothMax, LogSmoothMax, Vmean, VdotV, Vnorm, Mtrace, Mnorm) the operand is a "
    "representation term - dense, sparse (stored entries incl. explicit zeros, implicit zeros elsewhere), Slice of a vector, Row/Col/Diag of a matrix, T() and Slice of a dense or sparse matrix, nested - "
    "with its abstract element sequence velems / mat_at (every position of a sparse operand is an element: the stored scalar or the container's zero); the model reads it as the Go method does "
    "(index loop over Dim()/ConstAt, or for Vnorm the iterator, which skips the zeros of a sparse operand) and the result is proved to be the named function of ALL elements for EVERY representation: "
    "SmoothMax (XR, and ER), LogSmoothMax = SmoothMax for positive (XR) and for non-negative operands (ER: each implicit zero adds e^0 = 1 to the denominator and nothing to the numerator), Vmean, VdotV of two "
    "differently represented operands, Vnorm = sqrt(sum of squares of all elements) although the iterator skips zeros, Mtrace = sum of mat_at a i i, Mnorm = sum of squares of all elements; "
    "(3) Real64 value path = Float64 value path for every op (every carrier; the concrete SQRT excluded, its two bodies differ); (4) ConvertScalar/ConvertConstScalar yield the "
    "requested registered type holding the getter-converted value; refutations for the known findings. NOT proved: the step from exact reals to "
    "binary64/binary32 rounding (covered per sampled case: bit-exact replay on Coq primitive floats with float32 rounding via "
    "SpecFloat.binary_normalize 24 128, innocuous double rounding of + - * / assumed for Float32), the accuracy of Go's math.* (certified per "
    "recorded call by Coq-Interval goals, capped per run; the special-value table is checked against every recorded call with a non-finite argument or result) and of math.Gamma/Lgamma and /repo/special (opaque; only same-routing across types is "
    "checked; special.LogErfc is additionally certified per recorded call against ln(1 - erf x), erf the integral, by Coq-Interval on the whole negative side and up to x = 3: a wrong branch "
    "selection there fails the certificate), float->int conversions of NaN/out-of-range values (implementation-defined in Go: excluded and counted), signed zeros and overflow/underflow on the extended carrier "
    "(R has one zero; math.Pow at non-finite operands only for the exponents 0.5 and 2), derivative slots (C01).")


def known():
    fs = list(vlib.known_findings("C02"))
    ids = {f.get("id") for f in fs}
    if os.path.exists(PROPOSED):
        for f in json.load(open(PROPOSED)).get("findings", []):
            if f.get("id") not in ids:
                fs.append(f)
    return fs


def is_known(failure):
    for f in known():
        if f.get("match", {}).get("site") == failure.get("site"):
            return f
    return None


def eval_with_excluded(paths):
    """vlib.eval_shards plus the counter E (cases whose model result is the excluded, implementation-defined
    float->int conversion) that every case shard prints after M."""
    import concurrent.futures as cf, time

    def one(p):
        t0 = time.time()
        rc, out = vlib.coqc_file(p, timeout=900)
        if rc != 0 and "Error" not in out:
            # no Coq error message: the process was killed (time-out / memory pressure on a loaded machine); evaluate once more
            rc, out = vlib.coqc_file(p, timeout=1500)
        r = {"path": p, "secs": round(time.time() - t0, 2), "ok": False, "mism": None, "error": None, "excl": 0}
        m = re.search(r"M\s*=\s*(\[[^\]]*\])", out, flags=re.S)
        e = re.search(r"E\s*=\s*(\d+)", out)
        if e:
            r["excl"] = int(e.group(1))
        if rc == 0 and m:
            body = m.group(1).strip()[1:-1].strip()
            r["mism"] = [int(x) for x in re.findall(r"\d+", body)] if body else []
            r["ok"] = (r["mism"] == [])
        else:
            r["error"] = out[-3000:]
        for ext in (".vo", ".vok", ".vos", ".glob"):
            q = p[:-2] + ext
            if os.path.exists(q):
                os.remove(q)
        aux = os.path.join(os.path.dirname(p), "." + os.path.basename(p)[:-2] + ".aux")
        if os.path.exists(aux):
            os.remove(aux)
        return r
    with cf.ThreadPoolExecutor(max_workers=vlib.NCPU) as ex:
        return list(ex.map(one, paths))


def corr(ctx, binary, n):
    rc, out = vlib.run_harness(ctx, binary, n, extra=CORPUS)
    if rc != 0:
        ctx.violation({"obligation": "C02 harness run", "log": out[-3000:]}, False,
                      "harness failed on the implementation")
        return [], True
    meta = json.load(open(os.path.join(ctx.dir, "cases.meta.json")))
    vlib.merge_meta(ctx, meta)
    shards = sorted(glob.glob(os.path.join(ctx.dir, "cases_*.v")),
                    key=lambda p: int(re.findall(r"_(\d+)\.v$", p)[0]))
    certs = sorted(glob.glob(os.path.join(ctx.dir, "cert_*.v")))
    res = eval_with_excluded(shards + certs)
    rs, rc_ = res[:len(shards)], res[len(shards):]
    ctx.oblige(len(res), sum(1 for r in res if r["ok"]))
    cases = vlib.load_jsonl(os.path.join(ctx.dir, "cases.jsonl"))
    bad, broken = [], False
    for k, r in enumerate(rs):
        if r["ok"]:
            continue
        broken = True
        if r["mism"] is None:
            ctx.violation({"obligation": "correspondence shard " + os.path.basename(r["path"]), "coqc_error": r["error"]},
                          False, "correspondence shard did not evaluate")
            continue
        for i in r["mism"]:
            bad.append(cases[k * meta["per_shard"] + i])
    cert_bad = [r for r in rc_ if not r["ok"]]
    for r in cert_bad:
        m = re.search(r'line (\d+)', r["error"] or "")
        goal = ""
        if m:
            try:
                lines = open(r["path"]).read().split("\n")
                goal = lines[max(0, int(m.group(1)) - 2)][:400]
            except OSError:
                pass
        ctx.violation({"obligation": "certificate " + os.path.basename(r["path"]), "goal": goal, "coqc_error": (r["error"] or "")[-1500:]},
                      False, "a recorded math.* result is not within tolerance of the named real function (Coq-Interval certificate failed)")
    ctx.cov.setdefault("extra", {})["certificate_files"] = len(certs)
    ctx.cov["extra"]["excluded_implementation_defined_conversions"] = sum(r["excl"] for r in rs)
    ctx.log("correspondence: %d cases in %d shards, %d mismatching; %d certificate files, %d failing (%.1fs max shard)" % (
        len(cases), len(shards), len(bad), len(certs), len(cert_bad), max([r["secs"] for r in res] or [0])))
    return bad, broken


def hunt(ctx, binary, bad):
    rp = os.path.join(ctx.dir, "hunt_in.json")
    json.dump({"cases": bad[:200]}, open(rp, "w"))
    n = 12 if ctx.tier == "quick" else 150
    rc, out = vlib.sh([binary, "--extra", "hunt:" + CORPUS, "--replay", rp, "--n", str(n), "--seed", str(ctx.seed),
                       "--out", ctx.dir], timeout=900, env=vlib.go_env())
    hp = os.path.join(ctx.dir, "hunt.json")
    if rc == 0 and os.path.exists(hp):
        return json.load(open(hp))
    ctx.log("hunt did not complete: " + out[-500:])
    return None


def run(ctx):
    ctx.cov["trusted_base"] = vlib.TRUSTED_BASE_COMMON + [
        "float32 rounding modelled by SpecFloat.binary_normalize 24 128; Float32 + - * / as round32 of the binary64 operation (double rounding innocuous since 53 >= 2*24+2)",
        "math.* / special.* calls answered from a per-case oracle table recorded by the harness (Go's own results for the same argument bits); math.Exp/Log/Log1p/Sin/Cos/Tan/Sinh/Cosh/Tanh/Erf/Erfc/Pow entries certified against the real functions by Coq-Interval (interval/integral tactics), capped per run; Gamma/Lgamma/special.* opaque",
        "the extended carrier ER (coq/C02/Ext.v) is a specification-side instance of the same op table; its special-value table fn_special / fn_edge is tied to Go's math package by CorrExt.special_ok over every recorded call with a non-finite argument or result (runs/C02/cert_special.v); its IEEE arithmetic on the infinities is hand-written (one zero, no overflow)",
        "Coquelicot/Reals axioms as printed under 'print_assumptions'",
    ]
    ctx.cov["partial"] = PARTIAL
    ok, failures = vlib.proof_stage(ctx, TARGETS, PROPS)
    if ok:
        thms = vlib.theorem_names(os.path.join(vlib.COQ, "C02/Props.v"))
        if ctx.tier == "quick":
            # Print Assumptions walks the whole Reals/Coquelicot closure (~2 s per theorem): one representative per group in quick
            keep = ["C02_int_div", "C02_int_min", "C02_elementary", "C02_log1pexp", "C02_log1pexp_error_bound", "C02_logadd",
                    "C02_logsmoothmax_agrees_with_smoothmax", "C02_vnorm", "C02_real64_value_path_binary", "C02_convert_scalar",
                    "C02_concrete_ABS", "C02_ext_logsub", "C02_ext_logsmoothmax_nonnegative"]
            thms = [t for t in thms if t in keep]
        vthms = [t for t in vlib.theorem_names(os.path.join(vlib.COQ, "C02/PropsVec.v")) if t.startswith("C02_vec") or t.startswith("C02_mat")]
        if ctx.tier == "quick":
            vthms = [t for t in vthms if t in ("C02_vec_vnorm", "C02_vec_ext_logsmoothmax_nonnegative", "C02_mat_mtrace")]
        ctx.cov["print_assumptions"] = vlib.print_assumptions("C02", [("C02.Props", thms), ("C02.PropsVec", vthms)], ctx.dir)
    # optional stretch target: agreement with the value table of the C01 model (another builder's file; never the decision)
    if os.path.exists(os.path.join(vlib.COQ, "C01/Model.v")):
        ok2, _ = vlib.coq_make(["C02/AgreeC01.vo"])
        ctx.notes.append("optional C02/AgreeC01.vo (C02 op table = C01 value table m_v0/d_v0): %s" % (
            "built" if ok2.get("C02/AgreeC01.vo") else "NOT built (C01 model changed or missing); not part of the decision"))
    binary, blog = vlib.build_harness("c02")
    if binary is None:
        ctx.violation({"obligation": "build of harness/c02 against the library", "log": blog[-3000:]}, False,
                      "tie lost: the C02 harness no longer builds against the library")
        return
    n = 3 if ctx.tier == "quick" else 30
    bad, broken = corr(ctx, binary, n)
    h = hunt(ctx, binary, bad)
    unknown = []
    if h:
        ctx.cov.setdefault("extra", {})["hunt_cases_checked"] = h.get("checked")
        for f in h.get("failures") or []:
            kf = is_known(f)
            if kf:
                ctx.known_finding(kf["id"], "%s [witness: %s on %s -> %s]" % (kf["what"], f["case"]["op"], _recv(f["case"]), f.get("got")))
            else:
                unknown.append(f)
    for f in unknown:
        ctx.violation({"case": f["case"], "site": f["site"], "failure": f["failure"], "got": f["got"], "want": f["want"],
                       "broken": [x["target"] for x in failures] + (["correspondence C02.Corr.check"] if bad else [])},
                      True, "scalar method does not compute its named function: %s (%s): got %s, want %s" % (
                          f["site"], f["failure"], f["got"], f["want"]))
    if (bad or not ok) and not unknown:
        for f in failures:
            ctx.violation({"obligation": f["target"], "lemma": f["lemma"], "errors": f["errors"]}, False,
                          "proof obligation no longer checks: %s %s" % (f["target"], f["lemma"] or ""))
        if bad:
            ctx.violation({"case": bad[0], "n_mismatching": len(bad), "obligation": "correspondence C02.Corr.check (model vs implementation)"},
                          False, "model and implementation disagree on %d case(s) (first: %s on %s), but the property-level oracle found no failing input" % (
                              len(bad), bad[0].get("op"), _recv(bad[0])))


def _recv(c):
    names = ["Float64", "Float32", "Real64", "Real32", "Int8", "Int16", "Int32", "Int64", "Int", "ConstFloat64", "ConstFloat32",
             "ConstInt8", "ConstInt16", "ConstInt32", "ConstInt64", "ConstInt"]
    t = c.get("tc", 0)
    if c.get("op") in ("NewScalar", "NewConstScalar", "NullScalar"):
        t = c.get("tgt", 0)
    return names[t] if 0 <= t < len(names) else "?"


def replay(ctx, path):
    rp = json.load(open(path))
    binary, blog = vlib.build_harness("c02")
    if binary is None:
        print(blog)
        return 2
    if "case" not in rp:
        print("replay names a broken obligation, not an input: %s" % rp.get("obligation"))
        ok, failures = vlib.proof_stage(ctx, TARGETS, PROPS)
        return 0 if ok else 1
    vlib.coq_make(TARGETS)
    rc, out = vlib.sh([binary, "--replay", path, "--out", ctx.dir], env=vlib.go_env())
    print(out.strip())
    res = vlib.eval_shards(sorted(glob.glob(os.path.join(ctx.dir, "replay_*.v"))))
    agree = bool(res) and all(r["ok"] for r in res)
    hin = os.path.join(ctx.dir, "hunt_in.json")
    json.dump({"cases": [rp["case"]]}, open(hin, "w"))
    vlib.sh([binary, "--extra", "hunt", "--replay", hin, "--n", "0", "--out", ctx.dir], env=vlib.go_env())
    h = json.load(open(os.path.join(ctx.dir, "hunt.json")))
    fs = [f for f in (h.get("failures") or []) if not is_known(f)]
    kn = [f for f in (h.get("failures") or []) if is_known(f)]
    print("model/implementation agree on the replayed case: %s" % agree)
    for f in kn:
        print("KNOWN-FINDING: property=C02 %s" % is_known(f)["id"])
    print("property oracle on the implementation: %s" % ("; ".join(f["site"] + ": " + f["failure"] for f in fs) if fs else "holds"))
    return 1 if (fs or not agree) else 0
