module go2coq_c10

go 1.14
