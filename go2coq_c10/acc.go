// Copy-vs-reference classification of the vector-returning accessors of the dense
// matrices, derived from the source (go/ast): for every accessor and for both values of the
// `transposed` flag, does the returned vector
//   - hold fresh elements                                  (Copies),
//   - be a sub-slice of the matrix storage `values[a:b]` / the storage itself (AliasesStorage),
//   - be a fresh vector whose entries are the matrix's own element cells   (SharesCells:
//     Real32/Real64 store pointers, `v[j] = matrix.values[k]` without Clone() shares the cell)?
//
// The table is emitted as Gallina (GenAcc.v, modules AccDenseP / AccDenseR) and checked by
// theorems in coq/C10 (row_col_diag_accessors_copy, const_row_col_alias_only_on_contiguous_direction)
// and against the model's ConstRow/ConstCol alias flag, which the harness observes.
//
// Accepted statement forms are exactly those the accessors use today; anything else yields
// `Unsupported "<why>"`, which does not type-check downstream.
package main

import (
	"fmt"
	"go/ast"
	"go/parser"
	"go/token"
	"sort"
	"strings"
)

var accNames = []string{"ROW", "COL", "DIAG", "Row", "Col", "Diag", "ConstRow", "ConstCol", "ConstDiag", "AsVector", "AsConstVector"}

type accCtx struct {
	decls  map[string]*ast.FuncDecl // methods of the matrix type by name
	real   bool                     // element type is a pointer (Real32/Real64)
	vecTy  string                   // DenseFloat64Vector
	nilVec string                   // nilDenseReal64Vector
}

type accFail struct{ why string }

func afail(format string, a ...interface{}) { panic(accFail{fmt.Sprintf(format, a...)}) }

func isRecvValues(e ast.Expr, recv string) bool {
	s, ok := e.(*ast.SelectorExpr)
	if !ok || s.Sel.Name != "values" {
		return false
	}
	id, ok := s.X.(*ast.Ident)
	return ok && id.Name == recv
}
func mentionsValues(n ast.Node, recv string) bool {
	found := false
	ast.Inspect(n, func(x ast.Node) bool {
		if e, ok := x.(ast.Expr); ok && isRecvValues(e, recv) {
			found = true
		}
		return true
	})
	return found
}
func isTransposedCond(e ast.Expr, recv string) bool {
	s, ok := e.(*ast.SelectorExpr)
	if !ok || s.Sel.Name != "transposed" {
		return false
	}
	id, ok := s.X.(*ast.Ident)
	return ok && id.Name == recv
}

// kinds: "fresh" | "alias" | "share" | "unknown"
func (c *accCtx) classify(name string, transposed bool, depth int) string {
	if depth > 4 {
		afail("delegation too deep at %s", name)
	}
	fd, ok := c.decls[name]
	if !ok {
		afail("method %s not found", name)
	}
	recv := fd.Recv.List[0].Names[0].Name
	env := map[string]string{}
	r := c.block(fd.Body.List, env, recv, transposed, depth)
	if r == "" {
		afail("%s: no return reached", name)
	}
	return r
}

func copyEnv(e map[string]string) map[string]string {
	m := map[string]string{}
	for k, v := range e {
		m[k] = v
	}
	return m
}

func (c *accCtx) block(list []ast.Stmt, env map[string]string, recv string, transposed bool, depth int) string {
	for i, st := range list {
		switch s := st.(type) {
		case *ast.DeclStmt:
			gd, ok := s.Decl.(*ast.GenDecl)
			if !ok || gd.Tok != token.VAR {
				afail("declaration")
			}
			for _, sp := range gd.Specs {
				vs := sp.(*ast.ValueSpec)
				if len(vs.Values) != 0 {
					afail("var with initialiser")
				}
				for _, n := range vs.Names {
					env[n.Name] = "unknown"
				}
			}
		case *ast.AssignStmt:
			c.assign(s, env, recv)
		case *ast.ForStmt:
			c.loop(s.Body.List, env, recv)
		case *ast.IfStmt:
			if s.Init != nil {
				afail("if with init")
			}
			if isPanicBlock(s.Body) && s.Else == nil {
				continue
			}
			var eb []ast.Stmt
			if s.Else != nil {
				b, ok := s.Else.(*ast.BlockStmt)
				if !ok {
					afail("else-if")
				}
				eb = b.List
			}
			rest := list[i+1:]
			if isTransposedCond(s.Cond, recv) {
				br := eb
				if transposed {
					br = s.Body.List
				}
				return c.block(concat(br, rest), env, recv, transposed, depth)
			}
			if mentionsValues(s.Cond, recv) {
				afail("condition on the storage")
			}
			// a condition on the header other than the flag: both branches must classify alike
			a := c.block(concat(s.Body.List, rest), copyEnv(env), recv, transposed, depth)
			b := c.block(concat(eb, rest), copyEnv(env), recv, transposed, depth)
			if (a == "alias" && b == "share") || (a == "share" && b == "alias") {
				return "share" // a sub-slice of the storage shares its cells a fortiori
			}
			if a != b {
				afail("branches differ (%s / %s) under a condition that is not the transposed flag", a, b)
			}
			return a
		case *ast.ReturnStmt:
			if len(s.Results) != 1 {
				afail("return arity")
			}
			return c.ret(s.Results[0], env, recv, transposed, depth)
		case *ast.ExprStmt:
			if mentionsValues(s, recv) {
				afail("expression statement touching the storage")
			}
		default:
			afail("statement %T", st)
		}
	}
	return ""
}

func (c *accCtx) isFreshCall(e ast.Expr) bool {
	call, ok := e.(*ast.CallExpr)
	if !ok {
		return false
	}
	id, ok := call.Fun.(*ast.Ident)
	if !ok {
		return false
	}
	return id.Name == "make" || id.Name == c.nilVec
}

func (c *accCtx) assign(s *ast.AssignStmt, env map[string]string, recv string) {
	if len(s.Lhs) == 1 && len(s.Rhs) == 1 {
		if id, ok := s.Lhs[0].(*ast.Ident); ok {
			rhs := s.Rhs[0]
			switch {
			case c.isFreshCall(rhs):
				env[id.Name] = "fresh"
				return
			default:
				if se, ok := rhs.(*ast.SliceExpr); ok && isRecvValues(se.X, recv) {
					env[id.Name] = "alias"
					return
				}
				if isRecvValues(rhs, recv) {
					env[id.Name] = "alias"
					return
				}
			}
			if mentionsValues(rhs, recv) {
				afail("assignment from the storage in an unknown form")
			}
			if _, tracked := env[id.Name]; tracked {
				afail("vector variable %s assigned from an unknown expression", id.Name)
			}
			return // an integer local (i = matrix.index(i, 0), ...)
		}
	}
	for _, l := range s.Lhs {
		if _, ok := l.(*ast.Ident); !ok {
			afail("assignment target outside a loop")
		}
	}
	for _, r := range s.Rhs {
		if mentionsValues(r, recv) {
			afail("multi-assignment from the storage")
		}
	}
}

// loop body: v[e] = <element>, possibly nested loops
func (c *accCtx) loop(list []ast.Stmt, env map[string]string, recv string) {
	for _, st := range list {
		switch s := st.(type) {
		case *ast.ForStmt:
			c.loop(s.Body.List, env, recv)
		case *ast.AssignStmt:
			if len(s.Lhs) != 1 || len(s.Rhs) != 1 || s.Tok != token.ASSIGN {
				afail("loop assignment form")
			}
			ix, ok := s.Lhs[0].(*ast.IndexExpr)
			if !ok {
				afail("loop assignment target")
			}
			v, ok := ix.X.(*ast.Ident)
			if !ok {
				afail("loop assignment to a non-local (writes the storage?)")
			}
			k, tracked := env[v.Name]
			if !tracked || k == "unknown" || k == "alias" {
				afail("element write to %s (%s)", v.Name, k)
			}
			switch c.elemKind(s.Rhs[0], recv) {
			case "value":
			case "cell":
				env[v.Name] = "share"
			}
		default:
			afail("loop statement %T", st)
		}
	}
}

// "value": a copy of the element; "cell": the matrix's own element cell
func (c *accCtx) elemKind(e ast.Expr, recv string) string {
	if ix, ok := e.(*ast.IndexExpr); ok && isRecvValues(ix.X, recv) {
		if c.real {
			return "cell"
		}
		return "value"
	}
	if call, ok := e.(*ast.CallExpr); ok {
		if sel, ok := call.Fun.(*ast.SelectorExpr); ok {
			if sel.Sel.Name == "Clone" {
				if ix, ok := sel.X.(*ast.IndexExpr); ok && isRecvValues(ix.X, recv) {
					return "value"
				}
			}
			if id, ok := sel.X.(*ast.Ident); ok && id.Name == recv && sel.Sel.Name == "AT" && c.real {
				return "cell" // AT returns the stored pointer
			}
		}
	}
	afail("element expression")
	return ""
}

func (c *accCtx) ret(e ast.Expr, env map[string]string, recv string, transposed bool, depth int) string {
	if ta, ok := e.(*ast.TypeAssertExpr); ok {
		e = ta.X
	}
	switch t := e.(type) {
	case *ast.Ident:
		k, ok := env[t.Name]
		if !ok || k == "unknown" {
			afail("return of %s with unknown provenance", t.Name)
		}
		return k
	case *ast.CallExpr:
		if id, ok := t.Fun.(*ast.Ident); ok && len(t.Args) == 1 { // conversion VECTOR_TYPE(x)
			if id.Name != c.vecTy {
				afail("return through %s", id.Name)
			}
			if isRecvValues(t.Args[0], recv) {
				return "alias"
			}
			return c.ret(t.Args[0], env, recv, transposed, depth)
		}
		if sel, ok := t.Fun.(*ast.SelectorExpr); ok {
			if id, ok := sel.X.(*ast.Ident); ok && id.Name == recv {
				return c.classify(sel.Sel.Name, transposed, depth+1)
			}
		}
	}
	afail("return expression %T", e)
	return ""
}

var coqKind = map[string]string{"fresh": "Copies", "alias": "AliasesStorage", "share": "SharesCells"}

// accFile: the table of one instantiation as Gallina text (body of a module)
func accFile(path, elem string, real bool) string {
	fset := token.NewFileSet()
	f, err := parser.ParseFile(fset, path, nil, 0)
	if err != nil {
		return fmt.Sprintf("  Definition parse_error := Unsupported \"%v\".\n", err)
	}
	mt := "Dense" + elem + "Matrix"
	c := &accCtx{decls: map[string]*ast.FuncDecl{}, real: real, vecTy: "Dense" + elem + "Vector", nilVec: "nilDense" + elem + "Vector"}
	for _, d := range f.Decls {
		fd, ok := d.(*ast.FuncDecl)
		if !ok || fd.Recv == nil || len(fd.Recv.List) != 1 || len(fd.Recv.List[0].Names) != 1 {
			continue
		}
		t := fd.Recv.List[0].Type
		if st, ok := t.(*ast.StarExpr); ok {
			t = st.X
		}
		if id, ok := t.(*ast.Ident); ok && id.Name == mt {
			c.decls[fd.Name.Name] = fd
		}
	}
	var b strings.Builder
	one := func(name string, tr bool) (res string) {
		defer func() {
			if r := recover(); r != nil {
				if u, ok := r.(accFail); ok {
					res = fmt.Sprintf("(Unsupported \"%s\")", strings.ReplaceAll(u.why, "Dense"+elem, "Dense<T>"))
					return
				}
				panic(r)
			}
		}()
		return coqKind[c.classify(name, tr, 0)]
	}
	names := append([]string{}, accNames...)
	sort.Strings(names)
	for _, n := range accNames {
		fmt.Fprintf(&b, "  Definition %s (transposed : bool) : acc_kind := if transposed then %s else %s.\n", n, one(n, true), one(n, false))
	}
	fmt.Fprintf(&b, "  Definition table : list (nat * (bool -> acc_kind)) :=\n    [")
	for i, n := range accNames {
		if i > 0 {
			b.WriteString("; ")
		}
		fmt.Fprintf(&b, "(%d%%nat, %s)", i, n)
	}
	b.WriteString("].\n")
	return b.String()
}

// accText: GenAcc.v; ok=false when an instantiation differs from its family or something is unsupported
func accText(repo string, plain, real []string) (string, map[string]interface{}, bool) {
	var b strings.Builder
	b.WriteString("(* GENERATED by /verif/go2coq_c10 (acc.go) from /repo/matrix_dense_*.go — do not edit.\n")
	b.WriteString("   Copy-vs-reference classification of the vector-returning accessors, per value of the transposed flag,\n")
	b.WriteString("   read off the source: `v = matrix.values[a:b]` / `VECTOR(matrix.values)` = AliasesStorage; a fresh vector\n")
	b.WriteString("   filled by `v[j] = matrix.values[k]` = Copies for value element types and SharesCells for Real32/Real64\n")
	b.WriteString("   (pointer elements; with `.Clone()` = Copies); `return matrix.M(..)` = the classification of M.\n")
	b.WriteString("   Accessor numbers in `table`: " + strings.Join(func() []string {
		r := []string{}
		for i, n := range accNames {
			r = append(r, fmt.Sprintf("%d %s", i, n))
		}
		return r
	}(), ", ") + ". *)\n")
	b.WriteString("From Coq Require Import List Bool.\nImport ListNotations.\n\n")
	b.WriteString("Inductive acc_kind := Copies | AliasesStorage | SharesCells.\n")
	b.WriteString("Definition acc_aliases (k : acc_kind) : bool := match k with Copies => false | _ => true end.\n\n")
	rep := map[string]interface{}{}
	ok := true
	for _, fm := range []struct {
		module string
		elems  []string
		real   bool
	}{{"AccDenseP", plain, false}, {"AccDenseR", real, true}} {
		var canon string
		same, differ := []string{}, []string{}
		for i, e := range fm.elems {
			t := accFile(repo+"/matrix_dense_"+e+".go", title(e), fm.real)
			if i == 0 {
				canon = t
				same = append(same, e)
			} else if t == canon {
				same = append(same, e)
			} else {
				differ = append(differ, e)
				ok = false
			}
		}
		if strings.Contains(canon, "Unsupported") {
			ok = false
		}
		fmt.Fprintf(&b, "(* identical for: %s%s *)\nModule %s.\n%sEnd %s.\n\n", strings.Join(same, ", "), func() string {
			if len(differ) > 0 {
				return "; DIFFERENT: " + strings.Join(differ, ", ")
			}
			return ""
		}(), fm.module, canon, fm.module)
		rep[fm.module] = map[string]interface{}{"identical": same, "different": differ, "unsupported": strings.Count(canon, "Unsupported")}
	}
	return b.String(), rep, ok
}
