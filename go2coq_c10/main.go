// go2coq_c10 — the small integer-kernel translator ("T2" of DESIGN.md §1.2).
//
// It reads the dense and sparse matrix instantiations of /repo
// (matrix_dense_<t>.go, matrix_sparse_<t>.go), takes the header struct and the
// pure integer methods that map view coordinates to storage offsets and back
// (index, ij, SLICE, Slice, ConstSlice, T / MagicT, Dims, the dense iterator's
// Ok / next / Index) and prints them as Gallina definitions over Z
// (`option` where the Go code panics, records for structs, Go's truncating
// `/` and `%` as Z.quot / Z.rem).
//
// Only the Go standard library is used.  The accepted grammar is exactly what
// those methods use today; anything else makes the translator emit
//   Definition <f> := Unsupported "<reason>"
// which does not type-check downstream, so the loss of the tie is loud.
//
// All instantiations of a family (plain element types / Real32+Real64) must
// translate to the same text; the per-family text is emitted once (modules
// DenseP, DenseR, SparseP, SparseR) and a JSON report lists, per family, which
// files were identical and which differ.
package main

import (
	"encoding/json"
	"flag"
	"fmt"
	"go/ast"
	"go/parser"
	"go/token"
	"os"
	"path/filepath"
	"sort"
	"strings"
)

// ---------------------------------------------------------------- structs

type field struct {
	name string
	typ  string // "Z" | "bool" | "V" | "ignore" | struct key
}
type structInfo struct {
	key    string // Dense | DenseIter | Sparse
	coq    string // DenseMatrix
	ctor   string // mkDense
	prefix string // d_
	fields []field
}

func (s *structInfo) field(n string) *field {
	for i := range s.fields {
		if s.fields[i].name == n {
			return &s.fields[i]
		}
	}
	return nil
}
func (s *structInfo) live() []field {
	var r []field
	for _, f := range s.fields {
		if f.typ != "ignore" {
			r = append(r, f)
		}
	}
	return r
}

var ignoredFields = map[string]bool{"tmp1": true, "tmp2": true}
var ignoredCalls = map[string]bool{"initTmp": true} // statement `m.initTmp()`: crops scratch vectors, no header effect

// ---------------------------------------------------------------- translation context

type unsupported struct{ why string }

func (u unsupported) Error() string { return u.why }
func fail(format string, a ...interface{}) {
	panic(unsupported{fmt.Sprintf(format, a...)})
}

type ctx struct {
	structs  map[string]*structInfo // by key
	goType   map[string]string      // Go type name -> struct key
	methods  map[string]methodSig   // "<key>.<name>" -> signature (already emitted)
	locals   map[string]string      // name -> typ
	recv     string
	recvKey  string
	mutRecv  bool
	canPanic bool
	nres     int
}
type methodSig struct {
	coq      string
	canPanic bool
	res      []string
}

func (c *ctx) typOf(e ast.Expr) string {
	switch t := e.(type) {
	case *ast.Ident:
		switch t.Name {
		case "int":
			return "Z"
		case "bool":
			return "bool"
		case "Matrix", "ConstMatrix", "MagicMatrix":
			return c.recvKeyMatrix()
		}
		if k, ok := c.goType[t.Name]; ok {
			return k
		}
	case *ast.StarExpr:
		return c.typOf(t.X)
	}
	return "ignore"
}
func (c *ctx) recvKeyMatrix() string {
	if strings.HasPrefix(c.recvKey, "Dense") {
		return "Dense"
	}
	return "Sparse"
}

func (c *ctx) expr(e ast.Expr) (string, string) {
	switch t := e.(type) {
	case *ast.ParenExpr:
		s, ty := c.expr(t.X)
		return "(" + s + ")", ty
	case *ast.BasicLit:
		if t.Kind == token.INT {
			return t.Value, "Z"
		}
		fail("literal %s", t.Value)
	case *ast.Ident:
		if t.Name == "true" || t.Name == "false" {
			return t.Name, "bool"
		}
		if ty, ok := c.locals[t.Name]; ok {
			return t.Name, ty
		}
		fail("unknown identifier %s", t.Name)
	case *ast.SelectorExpr:
		xs, xt := c.expr(t.X)
		si, ok := c.structs[xt]
		if !ok {
			fail("selector on non-struct %s", xs)
		}
		f := si.field(t.Sel.Name)
		if f == nil || f.typ == "ignore" {
			fail("unknown field %s.%s", xs, t.Sel.Name)
		}
		return "(" + si.prefix + f.name + " " + xs + ")", f.typ
	case *ast.StarExpr: // *matrix : value copy of the receiver
		return c.expr(t.X)
	case *ast.UnaryExpr:
		switch t.Op {
		case token.NOT:
			s, ty := c.expr(t.X)
			if ty != "bool" {
				fail("! on non-bool")
			}
			return "(negb " + s + ")", "bool"
		case token.SUB:
			s, ty := c.expr(t.X)
			if ty != "Z" {
				fail("- on non-int")
			}
			return "(- " + s + ")", "Z"
		case token.AND:
			if cl, ok := t.X.(*ast.CompositeLit); ok {
				return c.composite(cl)
			}
			return c.expr(t.X)
		}
		fail("unary operator %s", t.Op)
	case *ast.CompositeLit:
		return c.composite(t)
	case *ast.BinaryExpr:
		a, at := c.expr(t.X)
		b, bt := c.expr(t.Y)
		arith := map[token.Token]string{token.ADD: "+", token.SUB: "-", token.MUL: "*"}
		cmp := map[token.Token]string{token.LSS: "<?", token.LEQ: "<=?", token.GTR: ">?", token.GEQ: ">=?", token.EQL: "=?"}
		switch {
		case arith[t.Op] != "" && at == "Z" && bt == "Z":
			return "(" + a + " " + arith[t.Op] + " " + b + ")", "Z"
		case t.Op == token.QUO && at == "Z" && bt == "Z":
			return "(Z.quot " + a + " " + b + ")", "Z" // Go integer division truncates toward zero
		case t.Op == token.REM && at == "Z" && bt == "Z":
			return "(Z.rem " + a + " " + b + ")", "Z"
		case cmp[t.Op] != "" && at == "Z" && bt == "Z":
			return "(" + a + " " + cmp[t.Op] + " " + b + ")", "bool"
		case t.Op == token.NEQ && at == "Z" && bt == "Z":
			return "(negb (" + a + " =? " + b + "))", "bool"
		case t.Op == token.LOR && at == "bool" && bt == "bool":
			return "(" + a + " || " + b + ")", "bool"
		case t.Op == token.LAND && at == "bool" && bt == "bool":
			return "(" + a + " && " + b + ")", "bool"
		}
		fail("binary operator %s on %s,%s", t.Op, at, bt)
	case *ast.CallExpr:
		sel, ok := t.Fun.(*ast.SelectorExpr)
		if !ok {
			fail("call of non-method")
		}
		xs, xt := c.expr(sel.X)
		sig, ok := c.methods[xt+"."+sel.Sel.Name]
		if !ok {
			fail("call of untranslated method %s.%s", xt, sel.Sel.Name)
		}
		if sig.canPanic {
			fail("call of panicking method %s inside an expression", sel.Sel.Name)
		}
		if len(sig.res) != 1 {
			fail("call of multi-result method %s inside an expression", sel.Sel.Name)
		}
		args := []string{sig.coq, xs}
		for _, a := range t.Args {
			s, ty := c.expr(a)
			if ty != "Z" {
				fail("non-int argument")
			}
			args = append(args, s)
		}
		return "(" + strings.Join(args, " ") + ")", sig.res[0]
	}
	fail("expression %T", e)
	return "", ""
}

func (c *ctx) composite(cl *ast.CompositeLit) (string, string) {
	ty := c.typOf(cl.Type)
	si, ok := c.structs[ty]
	if !ok {
		fail("composite literal of unknown type")
	}
	given := map[string]string{}
	for _, el := range cl.Elts {
		kv, ok := el.(*ast.KeyValueExpr)
		if !ok {
			fail("positional composite literal")
		}
		k := kv.Key.(*ast.Ident).Name
		f := si.field(k)
		if f == nil {
			fail("unknown field %s in literal", k)
		}
		if f.typ == "ignore" {
			continue
		}
		v, vt := c.expr(kv.Value)
		if vt != f.typ {
			fail("field %s: type %s, want %s", k, vt, f.typ)
		}
		given[k] = v
	}
	parts := []string{si.ctor}
	for _, f := range si.live() {
		v, ok := given[f.name]
		if !ok {
			switch f.typ {
			case "Z":
				v = "0"
			case "bool":
				v = "false"
			default:
				fail("field %s missing in literal", f.name)
			}
		}
		parts = append(parts, v)
	}
	return "(" + strings.Join(parts, " ") + ")", ty
}

func isPanicBlock(b *ast.BlockStmt) bool {
	if len(b.List) != 1 {
		return false
	}
	es, ok := b.List[0].(*ast.ExprStmt)
	if !ok {
		return false
	}
	call, ok := es.X.(*ast.CallExpr)
	if !ok {
		return false
	}
	id, ok := call.Fun.(*ast.Ident)
	return ok && id.Name == "panic"
}
func endsInReturn(l []ast.Stmt) bool {
	if len(l) == 0 {
		return false
	}
	switch s := l[len(l)-1].(type) {
	case *ast.ReturnStmt:
		return true
	case *ast.IfStmt:
		if s.Else == nil {
			return false
		}
		eb, ok := s.Else.(*ast.BlockStmt)
		return ok && endsInReturn(s.Body.List) && endsInReturn(eb.List)
	}
	return false
}
func (c *ctx) isNilCheck(e ast.Expr) bool {
	b, ok := e.(*ast.BinaryExpr)
	if !ok || b.Op != token.EQL {
		return false
	}
	x, ok1 := b.X.(*ast.Ident)
	y, ok2 := b.Y.(*ast.Ident)
	return ok1 && ok2 && x.Name == c.recv && y.Name == "nil"
}

func (c *ctx) wrap(vals []string) string {
	s := vals[0]
	if len(vals) > 1 {
		s = "(" + strings.Join(vals, ", ") + ")"
	}
	if c.canPanic {
		return "Some " + paren(s)
	}
	return s
}
func paren(s string) string {
	if strings.HasPrefix(s, "(") || !strings.ContainsAny(s, " ") {
		return s
	}
	return "(" + s + ")"
}

func concat(a, b []ast.Stmt) []ast.Stmt {
	r := make([]ast.Stmt, 0, len(a)+len(b))
	r = append(r, a...)
	return append(r, b...)
}

func (c *ctx) stmts(list []ast.Stmt, ind string) string {
	if len(list) == 0 {
		if c.mutRecv {
			return c.wrap([]string{c.recv})
		}
		fail("control reaches the end of a value-returning method")
	}
	rest := list[1:]
	switch s := list[0].(type) {
	case *ast.IfStmt:
		if s.Init != nil {
			fail("if with init statement")
		}
		var eb []ast.Stmt
		if s.Else != nil {
			b, ok := s.Else.(*ast.BlockStmt)
			if !ok {
				eb = []ast.Stmt{s.Else}
			} else {
				eb = b.List
			}
		}
		if c.isNilCheck(s.Cond) && s.Else != nil {
			// nil receivers are outside the model (recorded in the generated header)
			return c.stmts(concat(eb, rest), ind)
		}
		cond, ct := c.expr(s.Cond)
		if ct != "bool" {
			fail("non-bool condition")
		}
		if isPanicBlock(s.Body) && s.Else == nil {
			if !c.canPanic {
				fail("internal: panic in non-option method")
			}
			return "if " + cond + " then None else\n" + ind + c.stmts(rest, ind)
		}
		saved := c.snapshot()
		a := c.stmts(concat(s.Body.List, rest), ind+"  ")
		c.locals = saved
		saved = c.snapshot()
		b := c.stmts(concat(eb, rest), ind+"  ")
		c.locals = saved
		return "if " + cond + "\n" + ind + "then " + a + "\n" + ind + "else " + b
	case *ast.AssignStmt:
		if len(s.Lhs) != 1 || len(s.Rhs) != 1 {
			fail("multi-assignment")
		}
		rhs, rt := c.expr(s.Rhs[0])
		switch l := s.Lhs[0].(type) {
		case *ast.Ident:
			if s.Tok != token.DEFINE && s.Tok != token.ASSIGN {
				fail("op-assignment to a local")
			}
			if s.Tok == token.ASSIGN {
				if old, ok := c.locals[l.Name]; !ok || old != rt {
					fail("assignment to unknown local %s", l.Name)
				}
			}
			c.locals[l.Name] = rt
			return "let " + l.Name + " := " + rhs + " in\n" + ind + c.stmts(rest, ind)
		case *ast.SelectorExpr:
			x, ok := l.X.(*ast.Ident)
			if !ok {
				fail("assignment through a nested selector")
			}
			xt, ok := c.locals[x.Name]
			si, ok2 := c.structs[xt]
			if !ok || !ok2 {
				fail("field assignment on non-struct %s", x.Name)
			}
			f := si.field(l.Sel.Name)
			if f == nil || f.typ == "ignore" {
				fail("assignment to unknown field %s", l.Sel.Name)
			}
			if f.typ != rt {
				fail("field %s: assigned %s", f.name, rt)
			}
			val := rhs
			cur := "(" + si.prefix + f.name + " " + x.Name + ")"
			switch s.Tok {
			case token.ASSIGN:
			case token.ADD_ASSIGN:
				val = "(" + cur + " + " + rhs + ")"
			case token.SUB_ASSIGN:
				val = "(" + cur + " - " + rhs + ")"
			default:
				fail("assignment operator %s", s.Tok)
			}
			return "let " + x.Name + " := " + si.prefix + "set_" + f.name + " " + x.Name + " " + paren(val) + " in\n" + ind + c.stmts(rest, ind)
		}
		fail("assignment target %T", s.Lhs[0])
	case *ast.ExprStmt:
		if call, ok := s.X.(*ast.CallExpr); ok {
			if sel, ok := call.Fun.(*ast.SelectorExpr); ok && ignoredCalls[sel.Sel.Name] {
				return c.stmts(rest, ind)
			}
		}
		fail("expression statement")
	case *ast.ReturnStmt:
		if len(s.Results) == 0 {
			if c.mutRecv {
				return c.wrap([]string{c.recv})
			}
			fail("bare return")
		}
		var vals []string
		for _, r := range s.Results {
			v, _ := c.expr(r)
			vals = append(vals, v)
		}
		return c.wrap(vals)
	}
	fail("statement %T", list[0])
	return ""
}
func (c *ctx) snapshot() map[string]string {
	m := map[string]string{}
	for k, v := range c.locals {
		m[k] = v
	}
	return m
}

func containsPanic(n ast.Node) bool {
	found := false
	ast.Inspect(n, func(x ast.Node) bool {
		if call, ok := x.(*ast.CallExpr); ok {
			if id, ok := call.Fun.(*ast.Ident); ok && id.Name == "panic" {
				found = true
			}
		}
		return true
	})
	return found
}

func coqType(c *ctx, t string) string {
	switch t {
	case "Z", "bool":
		return t
	}
	if si, ok := c.structs[t]; ok {
		return si.coq + " V"
	}
	return "V"
}

// translate one method; returns the Coq definition text
func (c *ctx) method(fd *ast.FuncDecl, coqName string) (text string) {
	defer func() {
		if r := recover(); r != nil {
			if u, ok := r.(unsupported); ok {
				text = fmt.Sprintf("Definition %s := Unsupported \"%s\".", coqName, u.why)
				return
			}
			panic(r)
		}
	}()
	c.locals = map[string]string{}
	rf := fd.Recv.List[0]
	c.recv = rf.Names[0].Name
	c.recvKey = c.typOf(rf.Type)
	c.locals[c.recv] = c.recvKey
	params := []string{}
	for _, p := range fd.Type.Params.List {
		ty := c.typOf(p.Type)
		if ty != "Z" {
			fail("parameter of type %s", ty)
		}
		for _, n := range p.Names {
			c.locals[n.Name] = "Z"
			params = append(params, n.Name)
		}
	}
	var res []string
	if fd.Type.Results != nil {
		for _, r := range fd.Type.Results.List {
			k := len(r.Names)
			if k == 0 {
				k = 1
			}
			for i := 0; i < k; i++ {
				res = append(res, c.typOf(r.Type))
			}
		}
	}
	c.mutRecv = len(res) == 0
	if c.mutRecv {
		res = []string{c.recvKey}
	}
	c.canPanic = containsPanic(fd.Body)
	body := c.stmts(fd.Body.List, "    ")
	rts := make([]string, len(res))
	for i, r := range res {
		rts[i] = coqType(c, r)
	}
	rt := strings.Join(rts, " * ")
	if len(rts) > 1 {
		rt = "(" + rt + ")"
	}
	if c.canPanic {
		rt = "option " + paren(rt)
	}
	ps := ""
	if len(params) > 0 {
		ps = " (" + strings.Join(params, " ") + " : Z)"
	}
	c.methods[c.recvKey+"."+fd.Name.Name] = methodSig{coq: coqName, canPanic: c.canPanic, res: res}
	return fmt.Sprintf("Definition %s {V : Type} (%s : %s)%s : %s :=\n    %s.",
		coqName, c.recv, coqType(c, c.recvKey), ps, rt, body)
}

// ---------------------------------------------------------------- per file

type want struct {
	key    string // receiver struct key
	method string
}

func structFromDecl(ts *ast.TypeSpec, st *ast.StructType, key, coq, ctor, prefix string, goType map[string]string) *structInfo {
	si := &structInfo{key: key, coq: coq, ctor: ctor, prefix: prefix}
	for _, f := range st.Fields.List {
		for _, n := range f.Names {
			ty := "V"
			switch t := f.Type.(type) {
			case *ast.Ident:
				switch t.Name {
				case "int":
					ty = "Z"
				case "bool":
					ty = "bool"
				}
			case *ast.StarExpr:
				if id, ok := t.X.(*ast.Ident); ok {
					if k, ok := goType[id.Name]; ok {
						ty = k
					}
				}
			}
			if ignoredFields[n.Name] {
				ty = "ignore"
			}
			if ty == "V" && n.Name != "values" {
				ty = "ignore"
			}
			si.fields = append(si.fields, field{n.Name, ty})
		}
	}
	return si
}

func recordText(si *structInfo) string {
	var b strings.Builder
	fs := si.live()
	fmt.Fprintf(&b, "Record %s (V : Type) := %s {", si.coq, si.ctor)
	for i, f := range fs {
		ty := f.typ
		if ty != "Z" && ty != "bool" && ty != "V" {
			ty = "DenseMatrix V"
		}
		sep := ";"
		if i == len(fs)-1 {
			sep = ""
		}
		fmt.Fprintf(&b, " %s%s : %s%s", si.prefix, f.name, ty, sep)
	}
	fmt.Fprintf(&b, " }.\n")
	fmt.Fprintf(&b, "Arguments %s {V}.\n", si.ctor)
	for _, f := range fs {
		fmt.Fprintf(&b, "Arguments %s%s {V}.\n", si.prefix, f.name)
	}
	for _, f := range fs {
		if f.typ != "Z" && f.typ != "bool" {
			continue
		}
		fmt.Fprintf(&b, "Definition %sset_%s {V : Type} (x : %s V) (v : %s) : %s V :=\n  %s", si.prefix, f.name, si.coq, f.typ, si.coq, si.ctor)
		for _, g := range fs {
			if g.name == f.name {
				b.WriteString(" v")
			} else {
				fmt.Fprintf(&b, " (%s%s x)", si.prefix, g.name)
			}
		}
		b.WriteString(".\n")
	}
	return b.String()
}

type fileResult struct {
	records string // record declarations (text)
	body    string // method definitions
}

func translateFile(path, family, elem string) fileResult {
	fset := token.NewFileSet()
	f, err := parser.ParseFile(fset, path, nil, 0)
	if err != nil {
		return fileResult{"", fmt.Sprintf("Definition parse_error := Unsupported \"%v\".", err)}
	}
	c := &ctx{structs: map[string]*structInfo{}, goType: map[string]string{}, methods: map[string]methodSig{}}
	mt := family + elem + "Matrix"
	it := family + elem + "MatrixIterator"
	c.goType[mt] = family
	if family == "Dense" {
		c.goType[it] = "DenseIter"
	}
	for _, d := range f.Decls {
		gd, ok := d.(*ast.GenDecl)
		if !ok {
			continue
		}
		for _, sp := range gd.Specs {
			ts, ok := sp.(*ast.TypeSpec)
			if !ok {
				continue
			}
			st, ok := ts.Type.(*ast.StructType)
			if !ok {
				continue
			}
			switch {
			case ts.Name.Name == mt && family == "Dense":
				c.structs["Dense"] = structFromDecl(ts, st, "Dense", "DenseMatrix", "mkDense", "d_", c.goType)
			case ts.Name.Name == mt && family == "Sparse":
				c.structs["Sparse"] = structFromDecl(ts, st, "Sparse", "SparseMatrix", "mkSparse", "s_", c.goType)
			case ts.Name.Name == it && family == "Dense":
				c.structs["DenseIter"] = structFromDecl(ts, st, "DenseIter", "DenseIter", "mkDenseIter", "di_", c.goType)
			}
		}
	}
	var wants []want
	if family == "Dense" {
		wants = []want{{"Dense", "index"}, {"Dense", "ij"}, {"Dense", "SLICE"}, {"Dense", "Slice"}, {"Dense", "ConstSlice"},
			{"Dense", "MagicT"}, {"Dense", "T"}, {"Dense", "Dims"},
			{"DenseIter", "Ok"}, {"DenseIter", "next"}, {"DenseIter", "Index"}}
	} else {
		wants = []want{{"Sparse", "index"}, {"Sparse", "ij"}, {"Sparse", "SLICE"}, {"Sparse", "Slice"}, {"Sparse", "ConstSlice"}, {"Sparse", "Dims"}}
	}
	decls := map[string]*ast.FuncDecl{}
	for _, d := range f.Decls {
		fd, ok := d.(*ast.FuncDecl)
		if !ok || fd.Recv == nil || len(fd.Recv.List) != 1 {
			continue
		}
		c.recvKey = ""
		k := c.typOf(fd.Recv.List[0].Type)
		decls[k+"."+fd.Name.Name] = fd
	}
	var rec, body strings.Builder
	for _, k := range []string{"Dense", "DenseIter", "Sparse"} {
		if si, ok := c.structs[k]; ok {
			rec.WriteString(recordText(si))
		}
	}
	for _, w := range wants {
		fd, ok := decls[w.key+"."+w.method]
		name := w.method
		if w.key == "DenseIter" {
			name = "it_" + w.method
		}
		if !ok {
			if w.method == "MagicT" {
				continue // only the Real instantiations have it
			}
			fmt.Fprintf(&body, "  Definition %s := Unsupported \"method not found\".\n", name)
			continue
		}
		body.WriteString("  " + c.method(fd, name) + "\n")
	}
	return fileResult{rec.String(), body.String()}
}

func title(s string) string { return strings.ToUpper(s[:1]) + s[1:] }

func main() {
	repo := flag.String("repo", "/repo", "repository root")
	out := flag.String("out", "", "output .v file")
	report := flag.String("report", "", "output report (json)")
	acc := flag.String("acc", "", "output .v file of the accessor copy/alias table (GenAcc.v)")
	loops := flag.String("loops", "", "output .v file of the traversal table of the cell-by-cell methods (GenLoop.v)")
	flag.Parse()
	plain := []string{"float64", "float32", "int", "int8", "int16", "int32", "int64"}
	real := []string{"real64", "real32"}
	type fam struct {
		module, family string
		elems          []string
	}
	fams := []fam{{"DenseP", "Dense", plain}, {"DenseR", "Dense", real}, {"SparseP", "Sparse", plain}, {"SparseR", "Sparse", real}}
	var b strings.Builder
	b.WriteString("(* GENERATED by /verif/go2coq_c10 from /repo/matrix_dense_*.go and matrix_sparse_*.go — do not edit.\n")
	b.WriteString("   Go int -> Z (no overflow: header fields are bounded by slice lengths), `/` -> Z.quot, `%` -> Z.rem,\n")
	b.WriteString("   panic -> None.  Dropped: scratch fields tmp1/tmp2 and `initTmp()` (no effect on the header),\n")
	b.WriteString("   `if matrix == nil` guards (nil receivers are outside the model). *)\n")
	b.WriteString("From Coq Require Import ZArith Bool.\nOpen Scope Z_scope.\nOpen Scope bool_scope.\n\n")
	rep := map[string]interface{}{}
	records := map[string]string{}
	var bodies []string
	okAll := true
	for _, fm := range fams {
		var canon fileResult
		same, differ := []string{}, []string{}
		for i, e := range fm.elems {
			p := filepath.Join(*repo, "matrix_"+strings.ToLower(fm.family)+"_"+e+".go")
			r := translateFile(p, fm.family, title(e))
			if i == 0 {
				canon = r
				same = append(same, e)
				continue
			}
			if r.records == canon.records && r.body == canon.body {
				same = append(same, e)
			} else {
				differ = append(differ, e)
				okAll = false
			}
		}
		if old, ok := records[fm.family]; ok && old != canon.records {
			okAll = false
			differ = append(differ, "header struct differs from the plain family")
		}
		if _, ok := records[fm.family]; !ok {
			records[fm.family] = canon.records
			b.WriteString(canon.records + "\n")
		}
		sort.Strings(differ)
		bodies = append(bodies, fmt.Sprintf("(* identical after renaming the element type: %s%s *)\nModule %s.\n%sEnd %s.\n",
			strings.Join(same, ", "), func() string {
				if len(differ) > 0 {
					return "; DIFFERENT: " + strings.Join(differ, ", ")
				}
				return ""
			}(), fm.module, canon.body, fm.module))
		rep[fm.module] = map[string]interface{}{"identical": same, "different": differ,
			"unsupported": strings.Count(canon.body, "Unsupported")}
		if strings.Contains(canon.body, "Unsupported") {
			okAll = false
		}
	}
	b.WriteString(strings.Join(bodies, "\n"))
	if *acc != "" {
		at, arep, aok := accText(*repo, plain, real)
		rep["accessors"] = arep
		if !aok {
			okAll = false
		}
		old, _ := os.ReadFile(*acc)
		if string(old) != at {
			if err := os.WriteFile(*acc, []byte(at), 0644); err != nil {
				fmt.Fprintln(os.Stderr, err)
				os.Exit(2)
			}
		}
	}
	if *loops != "" {
		lt, lrep, lok := loopText(*repo, plain, real)
		rep["loops"] = lrep
		if !lok {
			okAll = false
		}
		old, _ := os.ReadFile(*loops)
		if string(old) != lt {
			if err := os.WriteFile(*loops, []byte(lt), 0644); err != nil {
				fmt.Fprintln(os.Stderr, err)
				os.Exit(2)
			}
		}
	}
	rep["ok"] = okAll
	if *out != "" {
		old, _ := os.ReadFile(*out)
		if string(old) != b.String() { // keep the timestamp when nothing changed
			if err := os.WriteFile(*out, []byte(b.String()), 0644); err != nil {
				fmt.Fprintln(os.Stderr, err)
				os.Exit(2)
			}
		}
	} else {
		fmt.Print(b.String())
	}
	js, _ := json.MarshalIndent(rep, "", " ")
	if *report != "" {
		os.WriteFile(*report, js, 0644)
	} else if *out != "" {
		fmt.Println(string(js))
	}
}
