// Traversal table of the cell-by-cell whole-matrix methods of the dense matrices (round 6), derived from
// the source (go/ast) for all nine instantiations: Reset, SetIdentity, Set, Map, MapSet, Reduce, IsSymmetric
// (matrix_dense_<t>.go) and Equals/EQUALS, M{add,sub,mul,div}{M,S} with their upper-case concrete twins,
// Outer/OUTER (matrix_dense_<t>_math.go).
//
// A method is classified RowMajorCells when its body is
//     [ x, y := M.Dims() | v := <call not touching storage> | if <cond> { panic(..) | return .. } ]*
//     for i := 0; i < n; i++ { for j := 0; j < m; j++ { BODY } }        (n, m := RECEIVER.Dims())
//     [ return <expr not touching storage> ]
// and BODY reaches matrices only through  X.At/AT/ConstAt/MagicAt/index/<T>At(i, j)  with exactly the loop
// variables in that order (vectors through one-argument At/AT/ConstAt(i|j)), and mentions the backing
// array only as  X.values[X.index(i, j)].  UpperTriangleCells is the same with  j := i+1  and accesses
// (i, j) or (j, i)  (IsSymmetric).  Anything else yields `Unsupported "<why>"`, which does not type-check
// downstream.  The model's loops (Model.v / ModelMap.v: folds over mpos = positions rows cols through
// mAT / mSET = index) are exactly this shape; ProofsLoop.v pins the table.
package main

import (
	"fmt"
	"go/ast"
	"go/parser"
	"go/token"
	"strings"
)

var loopBase = []string{"Reset", "SetIdentity", "Set", "Map", "MapSet", "Reduce", "IsSymmetric"}
var loopMath = []string{"Equals", "EQUALS", "MaddM", "MADDM", "MaddS", "MADDS", "MsubM", "MSUBM", "MsubS", "MSUBS",
	"MmulM", "MMULM", "MmulS", "MMULS", "MdivM", "MDIVM", "MdivS", "MDIVS", "Outer", "OUTER"}

type loopFail struct{ why string }

func lfail(format string, a ...interface{}) { panic(loopFail{fmt.Sprintf(format, a...)}) }

func isValuesSel(e ast.Expr) bool {
	s, ok := e.(*ast.SelectorExpr)
	return ok && s.Sel.Name == "values"
}
func mentionsAnyValues(n ast.Node) bool {
	found := false
	ast.Inspect(n, func(x ast.Node) bool {
		if e, ok := x.(ast.Expr); ok && isValuesSel(e) {
			found = true
		}
		return true
	})
	return found
}
func identName(e ast.Expr) string {
	if id, ok := e.(*ast.Ident); ok {
		return id.Name
	}
	return ""
}
func isZeroLit(e ast.Expr) bool {
	l, ok := e.(*ast.BasicLit)
	return ok && l.Kind == token.INT && l.Value == "0"
}

// for V := FROM; V < BOUND; V++ { body }
func forHeader(s *ast.ForStmt) (v string, from ast.Expr, bound string, ok bool) {
	as, ok1 := s.Init.(*ast.AssignStmt)
	if !ok1 || as.Tok != token.DEFINE || len(as.Lhs) != 1 || len(as.Rhs) != 1 {
		return
	}
	v = identName(as.Lhs[0])
	from = as.Rhs[0]
	c, ok2 := s.Cond.(*ast.BinaryExpr)
	if !ok2 || c.Op != token.LSS || identName(c.X) != v || identName(c.Y) == "" {
		return
	}
	bound = identName(c.Y)
	inc, ok3 := s.Post.(*ast.IncDecStmt)
	if !ok3 || inc.Tok != token.INC || identName(inc.X) != v {
		return
	}
	return v, from, bound, v != ""
}

var cellAccessors = map[string]bool{"At": true, "AT": true, "ConstAt": true, "MagicAt": true, "index": true,
	"Int8At": true, "Int16At": true, "Int32At": true, "Int64At": true, "IntAt": true, "Float32At": true, "Float64At": true}

func loopKind(fd *ast.FuncDecl) string {
	recv := fd.Recv.List[0].Names[0].Name
	dims := map[string][2]string{} // variable -> (matrix, "rows"|"cols")
	list := fd.Body.List
	k := 0
	for ; k < len(list); k++ {
		if _, isFor := list[k].(*ast.ForStmt); isFor {
			break
		}
		switch s := list[k].(type) {
		case *ast.AssignStmt:
			if mentionsAnyValues(s) {
				lfail("prelude touches the storage")
			}
			if len(s.Lhs) == 2 && len(s.Rhs) == 1 {
				if call, ok := s.Rhs[0].(*ast.CallExpr); ok {
					if sel, ok := call.Fun.(*ast.SelectorExpr); ok && sel.Sel.Name == "Dims" && len(call.Args) == 0 {
						dims[identName(s.Lhs[0])] = [2]string{identName(sel.X), "rows"}
						dims[identName(s.Lhs[1])] = [2]string{identName(sel.X), "cols"}
					}
				}
			}
		case *ast.IfStmt:
			if s.Else != nil || s.Init != nil || mentionsAnyValues(s) {
				lfail("prelude: if with else/init or touching the storage")
			}
			if !isPanicBlock(s.Body) {
				if len(s.Body.List) != 1 {
					lfail("prelude: guard body")
				}
				if _, ok := s.Body.List[0].(*ast.ReturnStmt); !ok {
					lfail("prelude: guard body")
				}
			}
		default:
			lfail("prelude statement %T", s)
		}
	}
	if k == len(list) {
		lfail("no loop")
	}
	outer := list[k].(*ast.ForStmt)
	iv, ifrom, ibound, ok := forHeader(outer)
	if !ok || !isZeroLit(ifrom) {
		lfail("outer loop header")
	}
	if d, ok := dims[ibound]; !ok || d[0] != recv || d[1] != "rows" {
		lfail("outer loop is not bounded by the receiver's row count")
	}
	if len(outer.Body.List) != 1 {
		lfail("outer loop body is not a single inner loop")
	}
	inner, ok := outer.Body.List[0].(*ast.ForStmt)
	if !ok {
		lfail("outer loop body is not a single inner loop")
	}
	jv, jfrom, jbound, ok := forHeader(inner)
	if !ok {
		lfail("inner loop header")
	}
	if d, ok := dims[jbound]; !ok || d[0] != recv || d[1] != "cols" {
		lfail("inner loop is not bounded by the receiver's column count")
	}
	kind := "RowMajorCells"
	if !isZeroLit(jfrom) {
		b, ok := jfrom.(*ast.BinaryExpr)
		if !ok || b.Op != token.ADD || identName(b.X) != iv {
			lfail("inner loop start")
		}
		if l, ok := b.Y.(*ast.BasicLit); !ok || l.Value != "1" {
			lfail("inner loop start")
		}
		kind = "UpperTriangleCells"
	}
	// the body: allowed mentions of the backing array
	allowed := map[ast.Expr]bool{}
	ast.Inspect(inner.Body, func(x ast.Node) bool {
		ie, ok := x.(*ast.IndexExpr)
		if !ok || !isValuesSel(ie.X) {
			return true
		}
		call, ok := ie.Index.(*ast.CallExpr)
		if !ok {
			return true
		}
		sel, ok := call.Fun.(*ast.SelectorExpr)
		if !ok || sel.Sel.Name != "index" || len(call.Args) != 2 {
			return true
		}
		if identName(sel.X) != identName(ie.X.(*ast.SelectorExpr).X) || identName(sel.X) == "" {
			return true
		}
		allowed[ie.X] = true
		return true
	})
	ast.Inspect(inner.Body, func(x ast.Node) bool {
		switch e := x.(type) {
		case *ast.SelectorExpr:
			if e.Sel.Name == "values" && !allowed[e] {
				lfail("raw access to the backing array")
			}
			switch e.Sel.Name {
			case "rowOffset", "colOffset", "rowMax", "colMax", "transposed":
				lfail("header arithmetic outside index()")
			}
		case *ast.ForStmt, *ast.RangeStmt, *ast.FuncLit:
			lfail("nested control flow in the body")
		case *ast.CallExpr:
			sel, ok := e.Fun.(*ast.SelectorExpr)
			if !ok || !cellAccessors[sel.Sel.Name] {
				// any other call must not receive a loop variable (e.g. a private accessor taking (i, j))
				for _, a := range e.Args {
					if n := identName(a); n == iv || n == jv {
						lfail("loop variable passed to %s", exprName(e.Fun))
					}
				}
				return true
			}
			switch len(e.Args) {
			case 2:
				a0, a1 := identName(e.Args[0]), identName(e.Args[1])
				if a0 == iv && a1 == jv {
					return true
				}
				if kind == "UpperTriangleCells" && a0 == jv && a1 == iv {
					return true
				}
				lfail("%s called with (%s) instead of the loop variables", sel.Sel.Name, exprsText(e.Args))
			case 1:
				if a := identName(e.Args[0]); a != iv && a != jv {
					lfail("%s called with (%s)", sel.Sel.Name, exprsText(e.Args))
				}
			default:
				lfail("%s with %d arguments", sel.Sel.Name, len(e.Args))
			}
		}
		return true
	})
	for _, st := range list[k+1:] {
		r, ok := st.(*ast.ReturnStmt)
		if !ok || mentionsAnyValues(r) {
			lfail("statement after the loop")
		}
	}
	return kind
}

func exprName(e ast.Expr) string {
	switch t := e.(type) {
	case *ast.Ident:
		return t.Name
	case *ast.SelectorExpr:
		return exprName(t.X) + "." + t.Sel.Name
	}
	return fmt.Sprintf("%T", e)
}
func exprsText(es []ast.Expr) string {
	s := []string{}
	for _, e := range es {
		s = append(s, exprName(e))
	}
	return strings.Join(s, ", ")
}

func methodsOf(path, mt string) (map[string]*ast.FuncDecl, error) {
	fset := token.NewFileSet()
	f, err := parser.ParseFile(fset, path, nil, 0)
	if err != nil {
		return nil, err
	}
	decls := map[string]*ast.FuncDecl{}
	for _, d := range f.Decls {
		fd, ok := d.(*ast.FuncDecl)
		if !ok || fd.Recv == nil || len(fd.Recv.List) != 1 || len(fd.Recv.List[0].Names) != 1 || fd.Body == nil {
			continue
		}
		t := fd.Recv.List[0].Type
		if st, ok := t.(*ast.StarExpr); ok {
			t = st.X
		}
		if id, ok := t.(*ast.Ident); ok && id.Name == mt {
			decls[fd.Name.Name] = fd
		}
	}
	return decls, nil
}

// loopFile: the table of one instantiation as Gallina text (body of a module)
func loopFile(repo, e string) string {
	elem := title(e)
	mt := "Dense" + elem + "Matrix"
	var b strings.Builder
	one := func(decls map[string]*ast.FuncDecl, name string) (res string) {
		defer func() {
			if r := recover(); r != nil {
				if u, ok := r.(loopFail); ok {
					res = fmt.Sprintf("(Unsupported \"%s\")", strings.ReplaceAll(u.why, "Dense"+elem, "Dense<T>"))
					return
				}
				panic(r)
			}
		}()
		fd, ok := decls[name]
		if !ok {
			return "(Unsupported \"method not found\")"
		}
		return loopKind(fd)
	}
	all := []string{}
	for _, part := range []struct {
		path  string
		names []string
	}{{repo + "/matrix_dense_" + e + ".go", loopBase}, {repo + "/matrix_dense_" + e + "_math.go", loopMath}} {
		decls, err := methodsOf(part.path, mt)
		if err != nil {
			fmt.Fprintf(&b, "  Definition parse_error := Unsupported \"%v\".\n", err)
			continue
		}
		for _, n := range part.names {
			fmt.Fprintf(&b, "  Definition l_%s : loop_kind := %s.\n", n, one(decls, n))
			all = append(all, n)
		}
	}
	b.WriteString("  Definition table : list (nat * loop_kind) :=\n    [")
	for i, n := range all {
		if i > 0 {
			b.WriteString("; ")
		}
		fmt.Fprintf(&b, "(%d%%nat, l_%s)", i, n)
	}
	b.WriteString("].\n")
	return b.String()
}

// loopText: GenLoop.v; ok=false when an instantiation differs from its family or something is unsupported
func loopText(repo string, plain, real []string) (string, map[string]interface{}, bool) {
	var b strings.Builder
	b.WriteString("(* GENERATED by /verif/go2coq_c10 (loops.go) from /repo/matrix_dense_*.go and matrix_dense_*_math.go — do not edit.\n")
	b.WriteString("   Traversal of the cell-by-cell whole-matrix methods, read off the source: RowMajorCells = `for i < rows { for j < cols {`\n")
	b.WriteString("   over the receiver's Dims(), every matrix access through At/AT/ConstAt/index/<T>At(i, j), the backing array only as\n")
	b.WriteString("   values[index(i, j)]; UpperTriangleCells = the same with j from i+1 and accesses (i, j) / (j, i).\n")
	names := append(append([]string{}, loopBase...), loopMath...)
	b.WriteString("   Method numbers in `table`: " + strings.Join(func() []string {
		r := []string{}
		for i, n := range names {
			r = append(r, fmt.Sprintf("%d %s", i, n))
		}
		return r
	}(), ", ") + ". *)\n")
	b.WriteString("From Coq Require Import List Bool.\nImport ListNotations.\n\n")
	b.WriteString("Inductive loop_kind := RowMajorCells | UpperTriangleCells.\n\n")
	rep := map[string]interface{}{}
	ok := true
	for _, fm := range []struct {
		module string
		elems  []string
	}{{"LoopDenseP", plain}, {"LoopDenseR", real}} {
		var canon string
		same, differ := []string{}, []string{}
		for i, e := range fm.elems {
			t := loopFile(repo, e)
			if i == 0 {
				canon = t
				same = append(same, e)
			} else if t == canon {
				same = append(same, e)
			} else {
				differ = append(differ, e)
				ok = false
			}
		}
		if strings.Contains(canon, "Unsupported") {
			ok = false
		}
		fmt.Fprintf(&b, "(* identical for: %s%s *)\nModule %s.\n%sEnd %s.\n\n", strings.Join(same, ", "), func() string {
			if len(differ) > 0 {
				return "; DIFFERENT: " + strings.Join(differ, ", ")
			}
			return ""
		}(), fm.module, canon, fm.module)
		rep[fm.module] = map[string]interface{}{"identical": same, "different": differ, "unsupported": strings.Count(canon, "Unsupported")}
	}
	return b.String(), rep, ok
}
